"""C08 Fast-mode dataset equals light-mode items, however it is initialised."""
import astq
from rules import cgsize, dsinit, rv64, rvhsem, x86hsem, aeshw, a64dsread, rvdsread, x86loop, rtpreserve, a64hsem, a64sem

LEVEL = 'other'
TECHNIQUE = 'affine / interval case analysis of randomx_init_dataset over (count mod 4) x (count < 4) regions, constant-table agreement spec vs C++ vs assembled object, call-sequence and shape rules on the item construction; evaluation of the address-arithmetic slice on a sample set of ranges'
CLAIM = ('Decides statically, for every (start, count) including 0..3, non-multiples of 4 and the last item: each initialiser call gets a positive multiple of 4 items, its destination '
         'is the requested position (or a stack buffer copied to exactly the requested items), nothing outside [start, start+count) is written and the union is exactly that range - '
         'the clause "writes exactly the requested items" that no test exercises (the suite never calls randomx_init_dataset). Also: the item constants agree in spec, C++ and assembly; '
         'the interpreted and compiled initialiser are selected consistently; initDatasetItem has the step order of spec 7.3. Equality of the computed 64-byte items between compiled and '
         'interpreted code is numeric and not claimed.'
         ' The range property is additionally decided independently of the shape of the splitting code: the address-arithmetic slice of randomx_init_dataset and of the interpreted initialiser is evaluated for 900+ (start, count, initialiser) cases covering every residue of count mod 4 and ranges at both ends of the dataset (DS-RANGE-EVAL).'
         ' The compiled dataset initialiser computes the same SuperscalarHash instructions as the interpreter: every kind of instruction the x86 emitter produces is validated against specification Table 6.1.1 by symbolic execution of the emitted bytes (X86-SS-HSEM).'
         ' RVV template: every register that generated dataset-init code advances in place is reloaded inside the item loop (RVV-TPL-REINIT), so items after the first group use the same literals.')
LEVEL_NOTE = 'Trusted: documented precondition start + count <= item count; the compiled initialiser (hand-written asm + generated SuperscalarHash) writes [S, E) when E - S is a positive multiple of 4 (its loop shape is checked in RACE-ASM, its arithmetic is not).'
EXPLANATION = ('RACE-RANGE (8 regions x calls), DS-INITSEL, SPEC-DSCONST (16), DS-ITEM. DS-RANGE-EVAL.'
         ' X86-SS-HSEM.'
         ' RVV-TPL-REINIT.')

EXPLANATION += ' RVV-SS-HSEM (the vector dataset-initialisation generator computes the SuperscalarHash instruction semantics lane by lane).'

CLAIM += (' The vector dataset-initialisation entry of the RISC-V back-end is handed out only for vector lengths its vsetivli instructions can honour (RVV-JIT-VLEN); initDatasetItem is decided by symbolic evaluation in every configuration that compiles it (DS-ITEM).')
EXPLANATION += ' RVV-JIT-VLEN.'

EXPLANATION += ' A64-DSITEM-HSEM.'
CLAIM += (' The hand-written pieces of the A64 dataset-item routine, executed on terms, are the steps of specification 7.3 (register initialisation with the eight constants, line selection with the mask generateSuperscalarHash writes, XOR of the eight line words, result store, register-value update) (A64-DSITEM-HSEM).')

EXPLANATION += ' RV-DSITEM-HSEM.'
CLAIM += (' The same for the pieces of the RV64 SuperscalarHash routine, with the constants read from the assembled literal pool (RV-DSITEM-HSEM, both ISA variants).')

EXPLANATION += ' X86-DSITEM.'
CLAIM += (' The hand-written x86-64 pieces pair register i with the i-th constant label, select the cache line as cache memory + (value & (CacheSize / 64 - 1)) * 64, XOR word i into register i and store the eight registers in order (X86-DSITEM; forms the rule does not read are exit 2).')

EXPLANATION += ' A64-RT-CALLDEST.'


CLAIM += (' The SuperscalarHash emitters of the A64 and scalar RV64 back-ends are held against specification Table 6.1.1 as well (A64-SS-HSEM, RV-SS-HSEM), with the A64 immediate helpers every IADD_C / IXOR_C constant passes through (A64-IMMHELP): the compiled dataset initialisation of those back-ends computes the interpreter\'s items.')
EXPLANATION += ' A64-SS-HSEM, RV-SS-HSEM, A64-IMMHELP.'

def run(ctx, R):
    F = astq.Facts(ctx, 'K0')
    R.saw(config='K0')
    dsinit.rule_range(ctx, R, F)
    dsinit.rule_initsel(ctx, R, F)
    dsinit.rule_dsconst(ctx, R, F)
    cgsize.rule_layout(ctx, R, F)
    x86hsem.rule_ss_hsem(ctx, R)    # compiled and interpreted dataset initialisation compute the same SuperscalarHash
    rv64.rule_rvv_tpl_reinit(ctx, R)
    rvhsem.rule_rvv_ss_hsem(ctx, R)
    a64hsem.rule_ss_hsem(ctx, R)     # the A64 and scalar RV64 SuperscalarHash emitters against specification Table 6.1.1 (the compiled item code of those back-ends)
    rvhsem.rule_ss_hsem(ctx, R)
    a64sem.rule_immhelp(ctx, R)      # constants of IADD_C* / IXOR_C* reach the A64 code through emitMovImmediate / emitAddImmediate
    aeshw.rule_rvv_jit_vlen(ctx, R)
    a64dsread.rule_dsitem(ctx, R)
    rvdsread.rule_dsitem(ctx, R)
    x86loop.rule_dsitem(ctx, R)
    rtpreserve.rule_a64_calldest(ctx, R)
