"""C09 rules: SS-EXH, SS-RULES, SS-SIZE, SS-ADDRREG, SPEC-SSTABLES, IMM-ENC (x86 immediates), SS-EXEC."""
import re

import astq
import domains
from astq import CFG, calls, loc, show, showv, strip_all, val, walk
from core import AnalysisBroken
from rules.driver import loop_trip, ref_id

PORTS = {'-': 0, 'P0': 1, 'P1': 2, 'P5': 4, 'P01': 3, 'P05': 5, 'P015': 7}


def ss_types(F):
    e = F.enum('randomx::SuperscalarInstructionType')
    return {k: v for k, v in e.items() if k not in ('COUNT', 'INVALID')}


def switch_cases(F, f, enum_by_val):
    """{case label name: [statements]} of the (single) switch over SuperscalarInstructionType in f"""
    sws = [x for x in walk(f['body']) if x['k'] == 'Switch']
    out = {}
    default_unreachable = False
    for sw in sws:
        cur = []
        stmts = sw['b']['s'] if sw['b']['k'] == 'Compound' else [sw['b']]
        for s in stmts:
            x = s
            labs = []
            while x['k'] in ('Case', 'Default'):
                labs.append('default' if x['k'] == 'Default' else enum_by_val.get(val(x['lhs']), str(val(x['lhs']))))
                x = x['sub']
            if labs:
                body = []
                for l in labs:
                    out[l] = body
                cur = [out[l] for l in labs]
                # labels that directly precede share the body list with following fallthrough labels
            for b in cur:
                if b is not None and x not in b:
                    b.append(x)
            if x['k'] == 'Break':
                cur = []
        break
    return out


def rule_exh(ctx, R, F):
    R.rule('SS-EXH', 'each of the 14 SuperscalarHash instruction kinds has: a SuperscalarInstructionInfo of its type, membership in a slot table, a case in the generator\'s create(), in executeSuperscalar and in the x86 emitter '
           '(none falls into default: UNREACHABLE)', min_instances=56)
    types = ss_types(F)
    by_val = {v: k for k, v in types.items()}
    R.check(len(types) == 14, 'instruction kinds', 'src/superscalar_program.hpp', expected=14, found=len(types))
    infos = {}
    for g in F.globs(r'^randomx::SuperscalarInstructionInfo::\w+$'):
        init = g.get('init')
        if init is None:
            continue
        c = strip_all(init)
        cons = [x for x in walk(c) if x['k'] == 'Construct' and 'SuperscalarInstructionInfo' in (x.get('ctor') or '')]
        for cc in cons:
            if len(cc['a']) >= 2 and val(cc['a'][1]) is not None:
                infos[by_val.get(val(cc['a'][1]))] = g['name']
    slots = set()
    for g in F.globs(r'^randomx::slot_'):
        for x in walk(g['init']):
            if x['k'] == 'Ref' and 'SuperscalarInstructionInfo::' in (x.get('q') or ''):
                slots.add(x['q'].split('::')[-1])
    cf = F.func('randomx::SuperscalarInstruction::createForSlot')
    direct = {x['q'].split('::')[-1] for x in walk(cf['body']) if x['k'] == 'Ref' and 'SuperscalarInstructionInfo::' in (x.get('q') or '')}
    slots |= direct
    fns = {'create': F.func('randomx::SuperscalarInstruction::create'), 'executeSuperscalar': F.func('randomx::executeSuperscalar'),
           'x86 generateSuperscalarCode': F.func('randomx::JitCompilerX86::generateSuperscalarCode')}
    cases = {k: switch_cases(F, f, by_val) for k, f in fns.items()}
    for t in sorted(types, key=lambda k: types[k]):
        R.check(infos.get(t) == t, '%s: info object' % t, 'src/superscalar.cpp', expected='SuperscalarInstructionInfo::%s of type %s' % (t, t), found=infos.get(t))
        R.check(t in slots, '%s: selectable in a slot' % t, 'src/superscalar.cpp', expected='member of a slot_* table', found=sorted(slots))
        for k, f in fns.items():
            body = cases[k].get(t)
            ok = body is not None and not any(strip_all(s)['k'] == 'Call' and strip_all(s).get('name') == '__builtin_unreachable' for s in body) and len([s for s in body if s['k'] != 'Break']) > 0
            R.check(ok, '%s: case in %s' % (t, k), '%s:%d' % (f['file'], f['line']), expected='executing case', found='missing / unreachable' if not ok else 'present')


def rule_rules(ctx, R, F):
    R.rule('SS-RULES', 'operand rules of spec Table 6.1.1 are each enforced by a guard on the choice: dst != src unless the row has no such rule (canReuse_ only for IMULH_R / ISMULH_R), dst != r5 for IADD_RS (and r5 taken as source when only two registers are free), '
           'non-zero rotation count, reciprocal divisor neither zero nor a power of two; instructions without a source use dst as src', min_instances=8)
    S = ctx.spec()
    t = S.table('6.1.1')
    rules = {}
    for r in t['rows']:
        name = r['_cells'][1]
        rules[name] = S.code(r['_cells'][4]) if len(r['_cells']) > 4 else ''
    types = ss_types(F)
    by_val = {v: k for k, v in types.items()}
    sd = F.func('randomx::SuperscalarInstruction::selectDestination')
    where = '%s:%d' % (sd['file'], sd['line'])
    cr = F.func('randomx::SuperscalarInstruction::create')
    cases = switch_cases(F, cr, by_val)
    rule_dest(ctx, R, F, sd, cr, cases, types, where)
    # canReuse_ set only for rows without the dst != src rule that have a source
    reuse = sorted(t_ for t_, body in cases.items() if t_ != 'default' and any(x['k'] == 'Assign' and show(x['l']) == 'this->canReuse_' and val(x['r']) == 1 for s in body for x in walk(s)))
    exp_reuse = sorted(n for n, rl in rules.items() if 'dst != src' not in rl and n in ('IMULH_R', 'ISMULH_R'))
    R.eq('canReuse_ cases', '%s:%d' % (cr['file'], cr['line']), exp_reuse, reuse)
    for n, rl in sorted(rules.items()):
        if 'dst != src' in rl:
            names = [n] if n in cases else [k for k in cases if k.startswith(n)]
            bad = [k for k in names if k in reuse]
            R.check(not bad, '%s requires dst != src' % n, '%s:%d' % (cr['file'], cr['line']), expected='canReuse_ stays false', found=bad or 'false')
    rs = F.func('randomx::SuperscalarInstruction::reset')
    def innermost(x):
        while astq.is_node(x) and strip_all(x)['k'] == 'Assign':
            x = strip_all(x)['r']
        return x
    R.check(any(x['k'] == 'Assign' and show(x['l']) == 'this->canReuse_' and val(innermost(x['r'])) == 0 for x in walk(rs['body'])), 'reset() clears canReuse_ before every create', '%s:%d' % (rs['file'], rs['line']), expected='canReuse_ = false', found=show(rs['body']['s'][-1]))
    R.check(any(c.get('name') == 'reset' for c in calls(cr['body'])), 'create() calls reset()', '%s:%d' % (cr['file'], cr['line']), expected='reset()', found=[c.get('name') for c in calls(cr['body'])][:4])
    # rotation count and reciprocal divisor rejection loops
    for tname in ('IROR_C', 'IMUL_RCP'):
        body = cases.get(tname) or []
        dos = [x for s in body for x in walk(s) if x['k'] == 'Do']
        ok = False
        found = None
        if len(dos) == 1:
            d_ = dos[0]
            asgs = [x for x in walk(d_['b']) if x['k'] == 'Assign']
            with astq.renaming({cr['params'][1]['id']: 'P1'}), astq.nocasts():
                found = '%s while %s' % ([showv(x) for x in asgs], showv(d_['c']))
                if len(asgs) == 1:
                    var = strip_all(asgs[0]['l'])
                    vshow = show(var)
                    rhs = showv(asgs[0]['r'])
                    cshow = showv(d_['c'])
                    # the drawn value is rejected while it is 0 (rotation) / zero or a power of two (reciprocal) ...
                    if tname == 'IROR_C':
                        okc = rhs == '(P1.getByte() & 63)' and cshow in ('(%s == 0)' % vshow, '!%s' % vshow)
                    else:
                        okc = rhs == 'P1.getUInt32()' and cshow == 'randomx::isZeroOrPowerOf2(%s)' % vshow
                    # ... and it is what ends up in imm32_: either drawn into the member directly or copied to it after the loop, unchanged
                    if vshow == 'this->imm32_':
                        reaches = True
                    else:
                        post = [x for s_ in body for x in walk(s_) if x['k'] == 'Assign' and show(x['l']) == 'this->imm32_']
                        reaches = len(post) == 1 and ref_id(post[0]['r']) == var.get('id') and not any(
                            x['k'] in ('Assign', 'CAssign') and ref_id(x['l']) == var.get('id') and x is not asgs[0] for s_ in body for x in walk(s_))
                    ok = okc and reaches
        R.check(ok, '%s rejection loop' % tname, '%s:%d' % (cr['file'], cr['line']), expected='the immediate is redrawn (%s) while it is %s, and that value becomes imm32_' % ('getByte() & 63' if tname == 'IROR_C' else 'getUInt32()', '0' if tname == 'IROR_C' else 'zero or a power of two'), found=found)
    R.check('imm32 % 64 != 0' in rules.get('IROR_C', '') and 'imm32 != 0' in rules.get('IMUL_RCP', ''), 'spec rows carry these rules', 'doc/specs.md', expected='Table 6.1.1 rules column', found=(rules.get('IROR_C'), rules.get('IMUL_RCP')))
    # r5 as source in the two-register special case
    ss = F.func('randomx::SuperscalarInstruction::selectSource')
    sp = [x for x in walk(ss['body']) if x['k'] == 'If' and 'size()' in show(x['c']) and val(strip_all(strip_all(x['c'])['l'])['r']) == 2] if True else []
    oks = False
    if sp:
        with astq.nocasts():
            asg = [showv(x) for x in walk(sp[0]['t']) if x['k'] == 'Assign']
        oks = asg[:1] == ['(this->opGroupPar_ = (this->src_ = 5))'] and '%d' % types['IADD_RS'] in showv(sp[0]['c'])
    R.check(oks, 'selectSource: r5 becomes the source when only r5 and one other register are free (IADD_RS)', '%s:%d' % (ss['file'], ss['line']), expected='src_ = RegisterNeedsDisplacement', found=oks)
    ti = F.func('randomx::SuperscalarInstruction::toInstr')
    with astq.renaming({ti['params'][0]['id']: 'OUT'}), astq.nocasts():
        a = [showv(s) for s in ti['body']['s']]
    exp = ['(OUT.opcode = this.getType())', '(OUT.dst = this->dst_)', '(OUT.src = ((this->src_ >= 0) ? this->src_ : this->dst_))', 'OUT.setMod(this->mod_)', 'OUT.setImm32(this->imm32_)']
    R.eq('toInstr', '%s:%d' % (ti['file'], ti['line']), exp, a)


def rule_dest(ctx, R, F, sd, cr, cases, types, where):
    """selectDestination admits register i exactly when the five conditions of spec 6.3.4 hold -- decided by evaluating the admission paths of the
    loop body for every combination of the quantities the conditions mention (however the condition is written: one conjunction, nested ifs, early continues)"""
    import decoder as _dec
    import itertools
    loops = [x for x in walk(sd['body']) if x['k'] in ('For', 'While')]
    if not loops:
        raise AnalysisBroken('SS-RULES: selectDestination has no loop over the registers')
    lp = loops[0]
    R.check(loop_trip(lp) == 8, 'selectDestination considers r0-r7', where, expected=8, found=loop_trip(lp))
    lv = lp['init']['d'][0]['id'] if lp.get('init') and lp['init'].get('d') else None
    if lv is None:
        raise AnalysisBroken('SS-RULES: induction variable of the register loop in selectDestination not found')
    ren = {lv: 'I', sd['params'][0]['id']: 'CYCLE', sd['params'][1]['id']: 'CHAIN', sd['params'][2]['id']: 'REGS'}
    # (type, opGroup) pairs that create() can produce
    pairs = set()
    for t_, body in cases.items():
        if t_ == 'default' or t_ not in types:
            continue
        for st in body:
            for x in walk(st):
                if x['k'] == 'Assign' and show(x['l']) == 'this->opGroup_' and val(x['r']) is not None:
                    pairs.add((types[t_], val(x['r'])))
    if len(pairs) < len(types):
        raise AnalysisBroken('SS-RULES: create() assigns opGroup_ in %d of %d cases' % (len(pairs), len(types)))
    groups = sorted(set(g for _, g in pairs))
    inval = F.enum('randomx::SuperscalarInstructionType').get('INVALID', -1)
    mul, adds = types['IMUL_R'], types['IADD_RS']
    r5 = 5

    class Unknown(Exception):
        pass

    def ev(n, env):
        n = strip_all(n)
        v_ = val(n)
        if v_ is not None:
            return v_
        if n['k'] == 'Bin':
            op = n['op']
            if op == '&&':
                return int(bool(ev(n['l'], env)) and bool(ev(n['r'], env)))
            if op == '||':
                return int(bool(ev(n['l'], env)) or bool(ev(n['r'], env)))
            x_, y_ = ev(n['l'], env), ev(n['r'], env)
            return {'==': lambda: int(x_ == y_), '!=': lambda: int(x_ != y_), '<': lambda: int(x_ < y_), '<=': lambda: int(x_ <= y_), '>': lambda: int(x_ > y_), '>=': lambda: int(x_ >= y_),
                    '+': lambda: x_ + y_, '-': lambda: x_ - y_, '&': lambda: x_ & y_, '|': lambda: x_ | y_}.get(op, lambda: (_ for _ in ()).throw(Unknown(op)))()
        if n['k'] == 'Un' and n.get('op') == '!':
            return int(not ev(n['e'], env))
        with astq.renaming(ren), astq.nocasts():
            key = re.sub(r'\(randomx::SuperscalarInstructionType\)', '', showv(n))
        if key in env:
            return env[key]
        raise Unknown(key)

    all_paths = _dec.paths(lp['b'])

    def admits(p_):
        for e_ in p_.events:
            if isinstance(e_, tuple):
                continue
            for c in calls(e_):
                if c.get('name') in ('push_back', 'emplace_back') and c.get('a') and ref_id(c['a'][0]) == lv:
                    return True
        return False
    if not any(admits(p_) for p_ in all_paths):
        raise AnalysisBroken('SS-RULES: no path of the register loop in selectDestination adds the register to the candidates')
    bad = []
    n = 0
    cyc = 5
    for lat, reuse_, i_, src_, chain, (ty, grp), lastg, lastp, par in itertools.product((4, 5, 6), (0, 1), (0, r5), (-1, 0, r5), (0, 1), sorted(pairs), groups + [inval], (-1, 3), (-1, 3)):
        env = {'REGS[I].latency': lat, 'CYCLE': cyc, 'this->canReuse_': reuse_, 'I': i_, 'this->src_': src_, 'CHAIN': chain, 'this->opGroup_': grp, 'REGS[I].lastOpGroup': lastg,
               'REGS[I].lastOpPar': lastp, 'this->opGroupPar_': par, 'this->info_.getType()': ty, 'this.getType()': ty}
        want = lat <= cyc and (reuse_ or i_ != src_) and (chain or grp != mul or lastg != mul) and (lastg != grp or lastp != par) and (ty != adds or i_ != r5)
        got = None
        try:
            for p_ in all_paths:
                if all(bool(ev(c_, env)) == t_ for c_, t_ in p_.conds):
                    got = admits(p_)
                    break
        except Unknown as u:
            raise AnalysisBroken('SS-RULES: selectDestination tests %s, which is not one of the quantities of spec 6.3.4' % u)
        n += 1
        if bool(want) != bool(got) and len(bad) < 3:
            bad.append(dict(latency=lat, cycle=cyc, canReuse=reuse_, i=i_, src=src_, allowChainedMul=chain, type=ty, opGroup=grp, lastOpGroup=lastg, lastOpPar=lastp, opGroupPar=par, spec_admits=bool(want), code_admits=got))
    R.check(not bad, 'selectDestination admits a register exactly under the five conditions of spec 6.3.4 (%d combinations)' % n, where,
            expected='ready at the cycle; dst != src unless reuse allowed; no chained IMUL_R unless allowChainedMul; last operation or its parameter differs; not r5 for IADD_RS', found=bad or 'agrees')



def size_local(f):
    """the local that counts the instructions of the program: the argument of prog.setSize(...)"""
    sz = [c for c in calls(f['body']) if c.get('name') == 'setSize' and c.get('a')]
    ids = set(ref_id(c['a'][0]) for c in sz)
    ids.discard(None)
    if len(ids) != 1:
        raise AnalysisBroken('generateSuperscalar: the program-size local (argument of setSize) was not found')
    return ids.pop()


def rule_size(ctx, R, F):
    R.rule('SS-SIZE', 'the only append prog(programSize++) happens for an instruction created after the guard `programSize >= SuperscalarMaxSize -> break`; the decode loop tests the same bound; the program buffer has SuperscalarMaxSize entries; '
           'SuperscalarMaxSize = 3 * RANDOMX_SUPERSCALAR_LATENCY + 2', min_instances=5)
    f = F.func('randomx::generateSuperscalar')
    R.saw(fn=f['q'], unit=f['_unit'])
    where = '%s:%d' % (f['file'], f['line'])
    mx = F.const('randomx::SuperscalarMaxSize')
    lat = int(F.macro('RANDOMX_SUPERSCALAR_LATENCY')['body'])
    R.eq('SuperscalarMaxSize', 'src/common.hpp', 3 * lat + 2, mx)
    rec = F.record('randomx::SuperscalarProgram')
    buf = [fl for fl in rec['fields'] if fl['name'] == 'programBuffer']
    R.check(bool(buf) and buf[0].get('arrlen') == mx, 'programBuffer length', '%s:%d' % (rec['file'], rec['line']), expected=mx, found=buf[0].get('arrlen') if buf else None)
    ps = size_local(f)
    incs = [x for x in walk(f['body']) if x['k'] == 'Un' and x['op'] == '++' and ref_id(x['e']) == ps]
    writes = [x for x in walk(f['body']) if x['k'] in ('Assign', 'CAssign') and ref_id(x['l']) == ps]
    R.check(len(incs) == 1 and not writes, 'single append site', where, expected='one programSize++', found='%d increments, %d other writes' % (len(incs), len(writes)))
    outer = [x for x in f['body']['s'] if x['k'] == 'For']
    with astq.renaming({ps: 'SIZE'}), astq.nocasts():
        oc = showv(outer[0]['c']) if outer else ''
    R.check('(SIZE < %d)' % mx in oc, 'decode loop bound', where, expected='... && programSize < SuperscalarMaxSize', found=oc)
    # the guard before creation
    g = CFG(f)
    cre = g.find_calls(lambda c: c.get('name') == 'createForSlot')
    app = g.find_calls(lambda c: c.get('opcall') == '()' and 'SuperscalarProgram' in (c.get('cls') or ''))
    guard_nodes = []
    for node in g.nodes:
        if node['kind'] == 'cond' and node.get('owner') and node['owner']['k'] == 'If':
            with astq.renaming({ps: 'SIZE'}), astq.nocasts():
                s = showv(node['stmt'])
            if '(SIZE >= %d)' % mx in s and any(x['k'] == 'Break' for x in walk(node['owner']['t'])):
                guard_nodes.append(node['id'])
    okg = len(cre) == 1 and len(guard_nodes) >= 1 and any(g.dominates(gn, cre[0][0]) for gn in guard_nodes)
    R.check(okg, 'size guard dominates instruction creation', where, expected='if (portsSaturated || programSize >= SuperscalarMaxSize) break; before createForSlot', found='%d guards, %d creation sites' % (len(guard_nodes), len(cre)))
    # between the guard and the creation nothing increments programSize (so size < max at creation, and one append per creation)
    if okg:
        gn = [x for x in guard_nodes if g.dominates(x, cre[0][0])][0]
        inc_nodes = [n['id'] for n in g.nodes if n['stmt'] is not None and any(y is incs[0] for y in walk(n['stmt']))] if incs else []
        between = any(g.paths_between(gn, i, set()) and g.paths_between(i, cre[0][0], {gn}) for i in inc_nodes)
        R.check(not between, 'no append between guard and creation', where, expected='none', found=between)
    # append only when all macro-ops of the current instruction are issued
    app_if = [x for x in walk(f['body']) if x['k'] == 'If' and incs and any(y is incs[0] for y in walk(x['t']))]
    okc = False
    cond = None
    if app_if:
        c_ = strip_all(app_if[-1]['c'])
        with astq.nocasts():
            cond = showv(c_)
        l_ = strip_all(c_['l']) if c_['k'] == 'Bin' else None
        while l_ is not None and l_['k'] == 'Cast':
            l_ = strip_all(l_['e'])
        okc = c_['k'] == 'Bin' and c_['op'] == '>=' and l_ is not None and l_['k'] == 'Ref' and l_.get('id') is not None and show(c_['r']).endswith('.getInfo().getSize()')
    R.check(okc, 'append when the instruction is complete', where, expected='if (<macro-op index> >= <current instruction>.getInfo().getSize())', found=cond)
    sz = [c for c in calls(f['body']) if c.get('name') == 'setSize']
    R.check(len(sz) == 1 and ref_id(sz[0]['a'][0]) == ps, 'program size recorded', where, expected='prog.setSize(programSize)', found=[show(c) for c in sz])


def rule_addrreg(ctx, R, F):
    R.rule('SS-ADDRREG', 'the address register is the register with the highest ASIC latency (longest dependency chain, 1 cycle per instruction), first maximum wins; ASIC latencies are recomputed from the emitted instructions', min_instances=3)
    f = F.func('randomx::generateSuperscalar')
    where = '%s:%d' % (f['file'], f['line'])
    loops = [x for x in f['body']['s'] if x['k'] == 'For']
    tail = loops[-2:] if len(loops) >= 3 else []
    if len(tail) != 2:
        raise AnalysisBroken('generateSuperscalar: the two ASIC-latency loops were not found')
    ren = {f['params'][0]['id']: 'PROG'}
    for l in tail:
        ren[l['init']['d'][0]['id']] = 'I'
    ren[size_local(f)] = 'programSize'
    sa = [c for c in calls(f['body']) if c.get('name') == 'setAddressRegister' and c.get('a')]
    addr_id = ref_id(sa[0]['a'][0]) if len(sa) == 1 else None
    if addr_id is None:
        raise AnalysisBroken('generateSuperscalar: the address-register local (argument of setAddressRegister) was not found')
    ren[addr_id] = 'addressReg'
    for i_ in [x for x in walk(tail[1]['b']) if x['k'] == 'If']:
        for y in walk(i_['t']):
            if y['k'] == 'Assign' and ref_id(y['l']) not in (None, addr_id):
                ren[ref_id(y['l'])] = 'asicLatencyMax'
    order = ['instr', 'latDst', 'latSrc']
    k_ = 0
    for s_ in (tail[0]['b']['s'] if tail[0]['b']['k'] == 'Compound' else []):
        if s_['k'] == 'Decl':
            for d in s_['d']:
                if k_ < len(order):
                    ren[d['id']] = order[k_]
                    k_ += 1
    role_ids = {v: k for k, v in ren.items()}
    with astq.renaming(ren), astq.nocasts():
        b0 = [showv(s) for s in tail[0]['b']['s']]
        c0 = showv(tail[0]['c'])
        b1 = [showv(s) if s['k'] != 'If' else 'if %s: %s' % (showv(s['c']), [showv(y) for y in s['t']['s']]) for s in tail[1]['b']['s']]
        ms = [showv(c) for c in calls(f['body']) if c.get('name') == 'memset' and 'asicLatencies' in show(c)]
        setr = [showv(c) for c in calls(f['body']) if c.get('name') == 'setAddressRegister']
    exp0 = ['randomx::Instruction & instr = PROG(I)', 'int latDst = (PROG.asicLatencies[instr.dst] + 1)', 'int latSrc = ((instr.dst != instr.src) ? (PROG.asicLatencies[instr.src] + 1) : 0)',
            '(PROG.asicLatencies[instr.dst] = std::max<int>(latDst, latSrc))']
    R.eq('ASIC latency recurrence', loc(tail[0], f), (exp0, '(I < programSize)'), (b0, c0))
    exp1 = "if (PROG.asicLatencies[I] > asicLatencyMax): ['(asicLatencyMax = PROG.asicLatencies[I])', '(addressReg = I)']"
    R.check(loop_trip(tail[1]) == 8 and exp1 in b1, 'arg-max over r0-r7', loc(tail[1], f), expected=exp1, found=b1)
    R.check(len(ms) == 1 and setr == ['PROG.setAddressRegister(addressReg)'], 'latencies reset and register recorded', where, expected='memset(asicLatencies, 0, ..); setAddressRegister(addressReg)', found=(ms, setr))
    init = [d for x in walk(f['body']) if x['k'] == 'Decl' for d in x['d'] if d.get('id') is not None and d.get('id') in (role_ids.get('asicLatencyMax'), role_ids.get('addressReg'))]
    R.check(all(val(d.get('init')) == 0 for d in init) and len(init) == 2, 'search starts at (0, r0)', where, expected='asicLatencyMax = 0, addressReg = 0', found=[(d['name'], val(d.get('init'))) for d in init])


def rule_tables(ctx, R, F):
    R.rule('SPEC-SSTABLES', 'MacroOp sizes / latencies / ports equal spec Table 6.2.1; instruction -> macro-op lists equal Table 6.1.1; decoder buffers equal Table 6.3.1; slot tables equal Table 6.3.2; '
           'decode-group selection order equals the bullets of 6.3.1', min_instances=30)
    S = ctx.spec()
    t = S.table('6.2.1')
    mops = {}
    for g in F.globs(r'^randomx::MacroOp::\w+$'):
        init = g.get('init')
        if init is None:
            continue
        cons = [x for x in walk(init) if x['k'] == 'Construct' and x.get('ctor', '').startswith('randomx::MacroOp::MacroOp') and x['a'] and strip_all(x['a'][0])['k'] == 'Str']
        if cons:
            a = cons[0]['a']
            mops[g['name'].lower()] = dict(size=val(a[1]), latency=val(a[2]) if len(a) > 2 else 0, u1=val(a[3]) if len(a) > 3 else 0, u2=val(a[4]) if len(a) > 4 else 0, q=g['q'])
    alias = {'mov_ri': 'mov_ri64'}
    for r in t['rows']:
        n = S.code(r['_cells'][0])
        k = alias.get(n, n)
        m = mops.get(k)
        size = int(S.code(r['_cells'][2]).split(',')[0])
        exp = dict(size=size, latency=int(r['_cells'][1]), u1=PORTS[S.code(r['_cells'][3])], u2=PORTS[S.code(r['_cells'][4])])
        R.check(m is not None and {k_: m[k_] for k_ in exp} == exp, 'macro-op %s' % n, 'doc/specs.md:%d' % r['_line'], expected=exp, found={k_: m[k_] for k_ in exp} if m else None)
    ports = {g['name']: g.get('v') for g in F.globs(r'^randomx::ExecutionPort::')}
    R.eq('execution port encoding', 'src/superscalar.cpp', {'Null': 0, 'P0': 1, 'P1': 2, 'P5': 4, 'P01': 3, 'P05': 5, 'P015': 7}, {k: ports.get(k) for k in ('Null', 'P0', 'P1', 'P5', 'P01', 'P05', 'P015')})
    # instruction -> macro ops
    t = S.table('6.1.1')
    arrays = {}
    for g in F.globs(r'^randomx::\w+_ops_array$'):
        arrays[g['name']] = [x['q'].split('::')[-1].lower() for x in walk(g['init']) if x['k'] == 'Ref' and 'MacroOp::' in (x.get('q') or '')]
    infos = {}
    for g in F.globs(r'^randomx::SuperscalarInstructionInfo::\w+$'):
        init = g.get('init')
        if init is None:
            continue
        cons = [x for x in walk(init) if x['k'] == 'Construct' and 'SuperscalarInstructionInfo' in (x.get('ctor') or '')]
        for cc in cons:
            if len(cc['a']) >= 3:
                a2 = strip_all(cc['a'][2])
                refs = [x for x in walk(cc['a'][2]) if x['k'] == 'Ref' and x.get('q')]
                if refs and '_ops_array' in refs[0]['q']:
                    infos[g['name']] = arrays.get(refs[0]['q'].split('::')[-1], [])
                elif refs:
                    infos[g['name']] = [refs[0]['q'].split('::')[-1].lower()]
    for r in t['rows']:
        n = r['_cells'][1]
        ops = [alias.get(S.code(x), S.code(x)) for x in r['_cells'][2].split(',')]
        names = [n] if n in infos else [k for k in infos if k.startswith(n + '7') or k.startswith(n + '8') or k.startswith(n + '9') or re.match(r'^%s\d$' % re.escape(n.replace('_C', '_C')), k)]
        if not names:
            names = [k for k in infos if k.startswith(n)]
        R.check(bool(names) and all(infos[k] == ops for k in names), 'instruction %s macro-ops' % n, 'doc/specs.md:%d' % r['_line'], expected=ops, found={k: infos[k] for k in names})
    # decoder buffers
    t = S.table('6.3.1')
    bufs = {}
    for g in F.globs(r'^randomx::buffer\d$'):
        bufs[g['name']] = [val(e) for e in g['init']['e']]
    decs = {}
    for g in F.globs(r'^randomx::DecoderBuffer::decodeBuffer\d+$'):
        cons = [x for x in walk(g['init']) if x['k'] == 'Construct' and 'DecoderBuffer' in (x.get('ctor') or '') and len(x['a']) == 3]
        if cons:
            refs = [x for x in walk(cons[0]['a'][2]) if x['k'] == 'Ref' and x.get('q')]
            decs[val(cons[0]['a'][1])] = (g['name'], bufs.get(refs[0]['q'].split('::')[-1]) if refs else None)
    for r in t['rows']:
        idx = int(r['_cells'][0])
        cfg = [int(x) for x in r['_cells'][1].split('-')]
        R.check(decs.get(idx, (None, None))[1] == cfg, 'decoder group %d' % idx, 'doc/specs.md:%d' % r['_line'], expected=cfg, found=decs.get(idx))
    # slots
    t = S.table('6.3.1b') if '6.3.1b' in S.tables else S.table('6.3.2')
    slot = {}
    for g in F.globs(r'^randomx::slot_'):
        slot[g['name']] = sorted(x['q'].split('::')[-1] for x in walk(g['init']) if x['k'] == 'Ref' and 'SuperscalarInstructionInfo::' in (x.get('q') or ''))
    cf = F.func('randomx::SuperscalarInstruction::createForSlot')
    for r in t['rows']:
        sz, note, ins = r['_cells'][0], r['_cells'][1], sorted(x.strip() for x in r['_cells'][2].split(','))
        if sz == '3' and 'last' in note:
            got = slot.get('slot_3L')
        elif sz == '3':
            got = slot.get('slot_3')
        elif sz == '4' and 'group 4' in note:
            got = sorted(x['q'].split('::')[-1] for x in walk(cf['body']) if x['k'] == 'Ref' and 'SuperscalarInstructionInfo::' in (x.get('q') or ''))
        elif sz == '4':
            got = slot.get('slot_4')
        elif sz == '7,8,9':
            got = None
            ok789 = all(slot.get('slot_%d' % k) == sorted(i + str(k) for i in ins) for k in (7, 8, 9))
            R.check(ok789, 'slots 7, 8, 9', 'doc/specs.md:%d' % r['_line'], expected=ins, found={k: slot.get('slot_%d' % k) for k in (7, 8, 9)})
            continue
        elif sz == '10':
            got = slot.get('slot_10')
        else:
            raise AnalysisBroken('spec Table 6.3.2 row %r' % r['_cells'])
        R.check(got == ins, 'slot %s (%s)' % (sz, note), 'doc/specs.md:%d' % r['_line'], expected=ins, found=got)
    # masks used to draw from the slot tables match the table sizes
    sw = switch_cases(F, cf, {})
    draws = []
    with astq.nocasts():
        for c in calls(cf['body']):
            if c.get('name') == 'create':
                draws.append(showv(c['a'][0]))
    exp_draws = sorted(['randomx::slot_3L[(P0.getByte() & 3)]', 'randomx::slot_3[(P0.getByte() & 1)]', '&randomx::SuperscalarInstructionInfo::IMUL_R', 'randomx::slot_4[(P0.getByte() & 1)]', 'randomx::slot_7[(P0.getByte() & 1)]',
                        'randomx::slot_8[(P0.getByte() & 1)]', 'randomx::slot_9[(P0.getByte() & 1)]', 'randomx::slot_10'])
    with astq.renaming({cf['params'][0]['id']: 'P0'}), astq.nocasts():
        draws = sorted(showv(c['a'][0]) for c in calls(cf['body']) if c.get('name') == 'create')
    R.eq('slot draws use one generator byte masked to the table size', '%s:%d' % (cf['file'], cf['line']), exp_draws, draws)
    # decode-group selection order
    fn_ = F.func('randomx::DecoderBuffer::fetchNext')
    types = ss_types(F)
    with astq.renaming({p['id']: 'P%d' % i for i, p in enumerate(fn_['params'])}), astq.nocasts():
        seq = []
        for s in fn_['body']['s']:
            if s['k'] == 'If':
                seq.append((showv(s['c']), [showv(x['e']) for x in walk(s['t']) if x['k'] == 'Return']))
            elif s['k'] == 'Return':
                seq.append(('else', [showv(s['e'])]))
    exp = [('((P0 == %d) || (P0 == %d))' % (types['IMULH_R'], types['ISMULH_R']), ['&randomx::DecoderBuffer::decodeBuffer3310']), ('(P2 < (P1 + 1))', ['&randomx::DecoderBuffer::decodeBuffer4444']),
           ('(P0 == %d)' % types['IMUL_RCP'], ['((P3.getByte() & 1) ? &randomx::DecoderBuffer::decodeBuffer484 : &randomx::DecoderBuffer::decodeBuffer493)']), ('else', ['this.fetchNextDefault(P3)'])]
    R.eq('decode group selection order (6.3.1)', '%s:%d' % (fn_['file'], fn_['line']), exp, seq)
    fd = F.func('randomx::DecoderBuffer::fetchNextDefault')
    with astq.renaming({fd['params'][0]['id']: 'P0'}), astq.nocasts():
        r_ = [showv(x['e']) for x in walk(fd['body']) if x['k'] == 'Return']
    R.eq('default group drawn from groups 0-3', '%s:%d' % (fd['file'], fd['line']), ['randomx::DecoderBuffer::decodeBuffers[(P0.getByte() & 3)]'], r_)
    db = F.glob('randomx::DecoderBuffer::decodeBuffers')
    R.eq('default groups', '%s:%d' % (db['file'], db['line']), ['decodeBuffer484', 'decodeBuffer7333', 'decodeBuffer3733', 'decodeBuffer493'], [x['q'].split('::')[-1] for x in walk(db['init']) if x['k'] == 'Ref' and x.get('q')])


def rule_immenc(ctx, R, F):
    R.rule('IMM-ENC', 'x86 emitters: every byte-sized emit of a value derived from the 32-bit immediate is provably at most 7 bits wide (known-bits), i.e. immediates are either emitted as full 32-bit fields (sign-extended by the CPU exactly as '
           'signExtend2sCompl does in the interpreter) or masked rotation counts; no narrowed imm8 encodings whose sign extension would differ', min_instances=4)
    n = 0
    for f in F.funcs(r'^randomx::JitCompilerX86::(h_\w+|generateSuperscalarCode|genAddress\w+|generateProgramLight|\w*[Ii]mm\w*)$'):
        locals_imm = {p['id'] for p in f['params'] if p['ty'] in ('unsigned int', 'int', 'unsigned long') and ('imm' in p['name'].lower() or f['name'] == 'generateProgramLight')}
        for x in walk(f['body']):
            if x['k'] == 'Decl':
                for d in x['d']:
                    if 'init' in d and (any(c.get('name') == 'getImm32' for c in calls(d['init'])) or any(y['k'] == 'Ref' and y.get('id') in locals_imm for y in walk(d['init']))):
                        locals_imm.add(d['id'])
        for c in calls(f['body']):
            if c.get('name') != 'emitByte' or not c.get('a'):
                continue
            a = c['a'][0]
            wide_params = {p['id'] for p in f['params'] if p['ty'] in ('unsigned int', 'int', 'unsigned long') and ('imm' in p['name'].lower() or f['name'] == 'generateProgramLight')}
            derived = any(cc.get('name') == 'getImm32' for cc in calls(a)) or any(x['k'] == 'Ref' and (x.get('id') in locals_imm) for x in walk(a)) \
                or any(x['k'] == 'Ref' and x.get('id') in wide_params for x in walk(a))
            if not derived:
                continue
            n += 1
            try:
                ev = domains.KBEval(F, {})
                try:
                    ev._exec(f['body'], [])       # definitions of locals such as `rotate`
                except AnalysisBroken:
                    pass
                # look through the implicit conversion to uint8_t of the parameter
                inner = a
                while astq.is_node(inner) and inner['k'] == 'Cast' and inner.get('impl'):
                    inner = inner['e']
                kb = ev.ev(inner)
                hi = kb.umax()
            except AnalysisBroken as e:
                hi = None
            if hi is None or hi > 127:
                # path refinement: an enclosing guard `x <= C` / `x < C` (true arm) on the emitted variable bounds it
                from rules.life import parents_map
                par = parents_map(f['body'])
                vid = ref_id(inner) if astq.is_node(inner) else None
                node = c
                while vid is not None and id(node) in par:
                    pnode = par[id(node)]
                    if pnode['k'] == 'If' and any(y is node for y in walk(pnode['t'])):
                        cnd = strip_all(pnode['c'])
                        if cnd['k'] == 'Bin' and cnd['op'] in ('<=', '<') and ref_id(cnd['l']) == vid and val(cnd['r']) is not None and 'unsigned' in (strip_all(cnd['l']).get('ty') or ''):
                            bound = val(cnd['r']) - (1 if cnd['op'] == '<' else 0)
                            hi = bound if hi is None else min(hi, bound)
                    node = pnode
            R.check(hi is not None and hi <= 127, '%s: emitByte(%s)' % (f['name'], show(a)[:50]), loc(c, f), expected='value provably <= 127 (no sign ambiguity in an imm8 field)', found='max %s' % hi)
    if n < 3:
        raise AnalysisBroken('IMM-ENC: only %d immediate-derived byte emits found (expected the rotate counts)' % n)
    # 32-bit fields: emit32 of getImm32 is the standard form
    cnt = 0
    for f in F.funcs(r'^randomx::JitCompilerX86::(h_\w+|generateSuperscalarCode|genAddress\w+)$'):
        for c in calls(f['body']):
            if c.get('name') == 'emit32' and c.get('a') and any(cc.get('name') == 'getImm32' for cc in calls(c['a'][0])):
                cnt += 1
    R.check(cnt >= 10, 'immediates are emitted as 32-bit fields', 'src/jit_compiler_x86.cpp', expected='>= 10 emit32(instr.getImm32()...) sites', found=cnt)


def rule_exec(ctx, R, F):
    R.rule('SS-EXEC', 'executeSuperscalar applies to r[dst] the operation Table 6.1.1 names, with r[src] / the sign-extended immediate / the cached reciprocal as second operand; the x86 emitter uses the same operand fields', min_instances=14)
    types = ss_types(F)
    by_val = {v: k for k, v in types.items()}
    f = F.func('randomx::executeSuperscalar')
    cases = switch_cases(F, f, by_val)
    ren = {f['params'][0]['id']: 'R'}
    for x in walk(f['body']):
        if x['k'] == 'Decl':
            for d in x['d']:
                if d['name'] == 'instr' or d.get('ty', '').startswith('randomx::Instruction'):
                    ren[d['id']] = 'IN'
    from rules import interpsem
    interpsem.rule_ss_exec_terms(ctx, R, F, cases, f)
    with astq.renaming(ren), astq.nocasts():
        rcp = cases.get('IMUL_RCP', [])
        import decoder as _dec
        got = []
        for p_ in _dec.paths({'k': 'Compound', 's': [s for s in rcp if s['k'] != 'Break']}):
            for e_ in p_.events:
                if isinstance(e_, tuple):
                    continue
                for x in walk(e_):
                    if x['k'] == 'CAssign' and showv(x) not in got:
                        got.append(showv(x))      # if / else and ?: both arrive here as one statement per path
    R.eq('IMUL_RCP semantics', '%s:%d' % (f['file'], f['line']), ['(R[IN.dst] *= *P2[IN.getImm32()])', '(R[IN.dst] *= randomx_reciprocal(IN.getImm32()))'], [g.replace(show({'k': 'Ref', 'id': f['params'][2]['id'], 'n': 'reciprocals'}), 'P2') for g in got] if False else normalise_rcp(got, f))
    # rotate count in rotr: masked there or guaranteed < 64 by the generator (IROR_C immediates are 1..63)
    ic = F.func('randomx::initCache')
    with astq.nocasts():
        body = show(ic['body'])
    R.check('reciprocalCache.push_back' in body.replace('->', '.').replace('P0.', '') or any(c.get('name') == 'push_back' for c in calls(ic['body'])), 'initCache caches randomx_reciprocal(divisor) and stores its index in the instruction', '%s:%d' % (ic['file'], ic['line']), expected='rcp = randomx_reciprocal(imm32); setImm32(index); push_back(rcp)',
            found=[c.get('name') for c in calls(ic['body']) if c.get('name') in ('randomx_reciprocal', 'setImm32', 'push_back', 'clear')])
    order = [c.get('name') for c in calls(ic['body']) if c.get('name') in ('clear', 'generateSuperscalar', 'randomx_reciprocal', 'setImm32', 'push_back')]
    R.eq('reciprocal cache construction order', '%s:%d' % (ic['file'], ic['line']), ['clear', 'generateSuperscalar', 'randomx_reciprocal', 'setImm32', 'push_back'], order)


def normalise_rcp(got, f):
    pid = f['params'][2]['id']
    out = []
    for g in got:
        out.append(re.sub(r'\*?\(?\*?reciprocals\)?', '*P2', g).replace('(*P2)', '*P2').replace('**P2', '*P2'))
    return out
