"""C17 rules on configuration K1 (generic fallbacks: no SSE / AES / int128 / x86-64 macros):
PORT-TYPECHECK, PORT-FENV, PORT-ROUND, PORT-LANES, PORT-LANEOPS, PORT-CVT, PORT-INT."""
import re
import subprocess

import astq
from astq import CFG, calls, loc, show, showv, strip_all, val, walk
from core import AnalysisBroken, CLANGXX, CONFIGS
from rules.driver import ref_id

OPS = {'add': '+', 'sub': '-', 'mul': '*', 'div': '/', 'xor': '^', 'and': '&', 'or': '|'}


def fenv_values(ctx, config):
    flags = [f for f in CONFIGS[config]['extra']]
    p = subprocess.run([CLANGXX, '-x', 'c++', '-std=gnu++11', '-E', '-dM', '-'] + flags, input='#include <cfenv>\n', stdout=subprocess.PIPE, stderr=subprocess.PIPE, text=True)
    out = {}
    for ln in p.stdout.split('\n'):
        m = re.match(r'#define (FE_(?:TONEAREST|DOWNWARD|UPWARD|TOWARDZERO))\s+(\S+)', ln)
        if m:
            try:
                out[m.group(1)] = int(m.group(2), 0)
            except ValueError:
                pass
    if len(out) != 4:
        raise AnalysisBroken('could not read the FE_* rounding macros for %s: %s' % (config, p.stderr[-300:]))
    return out


def rule_typecheck(ctx, R, config='K1'):
    R.rule('PORT-TYPECHECK', 'every library unit parses and type-checks in the generic configuration (no SSE2 / AES / __int128 / x86-64 macros): the fallback branches of intrin_portable.h, instructions_portable.cpp, '
           'the fenv branch of randomx.cpp and JitCompilerFallback are well-formed (the suite never compiles them)', min_instances=20)
    st = ctx.ast_status(config)
    for rel in sorted(st):
        facts = None
        try:
            facts = ctx.ast(rel, config)
        except AnalysisBroken as e:
            R.violation('%s [%s]' % (rel, config), rel, expected='parses', found=str(e)[-300:])
            continue
        R.saw(unit=rel, config=config)
        R.check(st[rel]['rc'] == 0 and facts['errors'] == 0, '%s [%s]' % (rel, config), rel, expected='0 errors', found='%s errors: %s' % (facts['errors'], st[rel]['stderr'][-400:]))
    F = astq.Facts(ctx, config)
    # the configuration really is the fallback one
    rv = F.records(r'^rx_vec_[if]128$') or [r for r in F.records('') if r['q'].startswith('rx_vec_')]
    has_fallback = F.has_func('rx_add_vec_f128') and F.func('rx_add_vec_f128')['file'].endswith('intrin_portable.h') and not any(c.get('name', '').startswith('_mm_') for c in calls(F.func('rx_add_vec_f128')['body']))
    R.check(has_fallback, 'configuration %s selects the struct-based vector emulation' % config, 'src/intrin_portable.h', expected='rx_add_vec_f128 defined without intrinsics', found=has_fallback)
    jf = [r for r in F.records(r'JitCompilerFallback')]
    R.check(len(jf) >= 1, 'configuration %s selects JitCompilerFallback' % config, 'src/common.hpp', expected='RANDOMX_HAVE_COMPILER 0', found=len(jf))
    m128 = F.func('mulh')
    R.check(not any('__int128' in (x.get('ty') or '') for x in walk(m128['body'])), 'configuration %s uses the 32x32 mulh' % config, '%s:%d' % (m128['file'], m128['line']), expected='no __int128', found='int128' if any('__int128' in (x.get('ty') or '') for x in walk(m128['body'])) else 'portable')
    return F


def rule_round(ctx, R, F, config='K1'):
    R.rule('PORT-ROUND', 'fenv build: rx_set_rounding_mode maps mode & 3 = 0,1,2,3 to FE_TONEAREST, FE_DOWNWARD, FE_UPWARD, FE_TOWARDZERO (spec Table 4.3.1) and sets it on every call; rx_reset_float_state sets nearest unconditionally; '
           'rx_get_rounding_mode is the inverse; no cached state', min_instances=8)
    fe = fenv_values(ctx, config)
    S = ctx.spec()
    t = S.table('4.3.1')
    names = {'roundTiesToEven': 'FE_TONEAREST', 'roundTowardNegative': 'FE_DOWNWARD', 'roundTowardPositive': 'FE_UPWARD', 'roundTowardZero': 'FE_TOWARDZERO'}
    want = {int(r['_cells'][0]): fe[names[r['_cells'][1]]] for r in t['rows']}
    f = F.func('rx_set_rounding_mode')
    R.saw(fn=f['q'] + '@' + config, unit=f['_unit'], config=config)
    where = '%s:%d' % (f['file'], f['line'])
    sws = [x for x in walk(f['body']) if x['k'] == 'Switch']
    if len(sws) != 1:
        R.violation('rx_set_rounding_mode structure', where, expected='switch (mode & 3)', found='%d switches' % len(sws))
    else:
        sw = sws[0]
        with astq.renaming({f['params'][0]['id']: 'MODE'}), astq.nocasts():
            R.eq('selector', where, '(MODE & 3)', showv(sw['c']))
        got = {}
        cur = []
        for s in sw['b']['s']:
            x = s
            labs = []
            while x['k'] in ('Case', 'Default'):
                if x['k'] == 'Case':
                    labs.append(val(x['lhs']))
                x = x['sub']
            if labs:
                cur = labs
            for c in calls(x):
                if c.get('name') in ('setRoundMode_', 'fesetround'):
                    for l in cur:
                        got[l] = val(c['a'][0])
            if x['k'] == 'Break':
                cur = []
        R.eq('mode -> fenv rounding constant', where, want, got)
    # no state: the function body references nothing but its parameter, constants and setRoundMode_
    for name in ('rx_set_rounding_mode', 'rx_reset_float_state', 'setRoundMode_'):
        g = F.func(name)
        refs = [x.get('q') for x in walk(g['body']) if x['k'] == 'Ref' and x.get('dk') == 'Var' and x.get('q') and not x.get('v') is not None]
        statics = [d['name'] for x in walk(g['body']) if x['k'] == 'Decl' for d in x['d'] if d.get('static') or d.get('tls')]
        nonconst = [q for q in refs if not (F.has_glob(q) and F.glob(q).get('const'))]
        R.check(not nonconst and not statics, '%s keeps no state' % name, '%s:%d' % (g['file'], g['line']), expected='no static / thread_local / global variable', found=(nonconst, statics))
        gg = CFG(g)
        setters = gg.find_calls(lambda c: c.get('name') in ('setRoundMode_', 'fesetround', '_controlfp'), must=True)
        if name != 'rx_set_rounding_mode':
            R.check(any(gg.postdominates(n, gg.entry) for n, c in setters), '%s always writes the rounding mode' % name, '%s:%d' % (g['file'], g['line']), expected='unconditional', found=[show(c) for n, c in setters])
    r = F.func('rx_reset_float_state')
    cs = [c for c in calls(r['body']) if c.get('name') == 'setRoundMode_']
    R.check(len(cs) == 1 and val(cs[0]['a'][0]) == fe['FE_TONEAREST'], 'rx_reset_float_state sets nearest', '%s:%d' % (r['file'], r['line']), expected='setRoundMode_(FE_TONEAREST)', found=[showv(c) for c in cs])
    sm = F.func('setRoundMode_')
    with astq.renaming({sm['params'][0]['id']: 'M'}):
        R.eq('setRoundMode_', '%s:%d' % (sm['file'], sm['line']), ['fesetround(M)'], [showv(s) for s in sm['body']['s']])
    g = F.func('rx_get_rounding_mode')
    sws = [x for x in walk(g['body']) if x['k'] == 'Switch']
    inv = {}
    if sws:
        cur = []
        for s in sws[0]['b']['s']:
            x = s
            labs = []
            while x['k'] in ('Case', 'Default'):
                if x['k'] == 'Case':
                    labs.append(val(x['lhs']))
                x = x['sub']
            if labs:
                cur = labs
            if x['k'] == 'Return':
                for l in cur:
                    inv[l] = val(x['e'])
                cur = []
    R.eq('rx_get_rounding_mode is the inverse map', '%s:%d' % (g['file'], g['line']), {v: k for k, v in want.items()}, inv)


def lane_stmt(s):
    """(lhs lane, op, [operand lanes]) of `x.L = A OP B` / `x.L = f(A)`; lanes as strings with the variable name removed"""
    top = strip_all(s)
    if top['k'] != 'Assign':
        return None
    return show(top['l']), top['r']


def lane_paths(F):
    """(double lane paths, uint64 lane paths) of rx_vec_f128 in increasing offset order, e.g. (['lo','hi'], ['i.u64[0]','i.u64[1]'])"""
    recs = [r for r in F.records(r'') if any(fl.get('anon') or fl['name'] == 'i' for fl in r['fields']) and r.get('size') == 16 and r.get('union')]
    for r in recs:
        d, u = {}, {}
        for fl in r['fields']:
            if fl.get('anon'):
                for a in fl.get('anon_fields', []):
                    if a['ty'] == 'double':
                        d[a.get('off')] = a['name']
            elif fl['ty'] == 'double':
                d[fl.get('off')] = fl['name']
            elif fl['ty'].startswith('rx_vec_i128') or 'rx_vec_i128' in fl['ty']:
                u = {0: fl['name'] + '.u64[0]', 8: fl['name'] + '.u64[1]'}
            else:
                # named struct member holding the two doubles
                sub = [x for x in F.records(r'') if not x['q'].startswith('(') and (x['q'] == fl['ty'] or fl['ty'].endswith(x['q']))]
                m_ = re.search(r'at (.*?):(\d+):\d+\)', fl['ty'])
                if m_:
                    sub += [x for x in F.records(r'') if x['q'].startswith('(') and x.get('file', '').endswith(m_.group(1).split('/')[-1]) and x.get('line') == int(m_.group(2))]
                for x in sub:
                    for a in x['fields']:
                        if a['ty'] == 'double':
                            d[(fl.get('off') or 0) + (a.get('off') or 0)] = fl['name'] + '.' + a['name']
        if sorted(d) == [0, 8] and sorted(u) == [0, 8]:
            return [d[0], d[8]], [u[0], u[8]]
    return None, None


def rule_laneops(ctx, R, F):
    R.rule('PORT-LANEOPS', 'every two-lane fallback operation is lane-symmetric with the operator its name says: rx_{add,sub,mul,div}_vec_f128 apply + - * / to (lo, hi) with operand order a OP b; rx_{xor,and,or}_vec_f128 apply the bit operator to both 64-bit lanes; '
           'rx_sqrt per lane; rx_swap exchanges the lanes; rx_xor_vec_i128 covers all four 32-bit lanes; set / set1 / load / store use the SSE lane numbering', min_instances=15)
    # lane paths of the emulated vector: two double members at byte offsets 0 and 8, two uint64 lanes at 0 and 8
    dpaths, upaths = lane_paths(F)
    R.check(dpaths is not None and upaths is not None, 'rx_vec_f128 layout: lo at offset 0, hi at offset 8, overlaid by u64[0], u64[1]', 'src/intrin_portable.h', expected='double lanes at 0 / 8 sharing storage with the integer view', found=(dpaths, upaths))
    for name, op in OPS.items():
        q = 'rx_%s_vec_f128' % name
        f = F.func(q)
        R.saw(fn=q + '@K1', unit=f['_unit'], config='K1')
        ren = {f['params'][0]['id']: 'A', f['params'][1]['id']: 'B'}
        for x in walk(f['body']):
            if x['k'] == 'Decl':
                for d in x['d']:
                    ren[d['id']] = 'X'
        with astq.renaming(ren), astq.nocasts():
            body = [showv(s) for s in f['body']['s'] if s['k'] not in ('Decl', 'Return')]
            rets = [showv(s) for s in f['body']['s'] if s['k'] == 'Return']
        want_paths = dpaths if name in ('add', 'sub', 'mul', 'div') else upaths
        got_paths = []
        okb = True
        for st in body:
            m = re.match(r'^\(X\.(?P<p>[\w.\[\]]+) = \(A\.(?P=p) %s B\.(?P=p)\)\)$' % re.escape(op), st)
            if not m:
                okb = False
            else:
                got_paths.append(m.group('p'))
        okb = okb and want_paths is not None and sorted(got_paths) == sorted(want_paths) and len(rets) == 1 and rets[0] in ('return rx_vec_f128(X)', 'return X')
        R.check(okb, q, '%s:%d' % (f['file'], f['line']), expected='X.L = A.L %s B.L for L in %s' % (op, want_paths), found=body)
    f = F.func('rx_sqrt_vec_f128')
    ren = {f['params'][0]['id']: 'A'}
    for x in walk(f['body']):
        if x['k'] == 'Decl':
            for d in x['d']:
                ren[d['id']] = 'X'
    with astq.renaming(ren), astq.nocasts():
        body = [showv(s) for s in f['body']['s'] if s['k'] != 'Decl']
    lo_, hi_ = (dpaths or ['lo', 'hi'])
    exp_s = ['(X.%s = sqrt(A.%s))' % (lo_, lo_), '(X.%s = sqrt(A.%s))' % (hi_, hi_)]
    R.check(sorted(body[:2]) == sorted(exp_s), 'rx_sqrt_vec_f128', '%s:%d' % (f['file'], f['line']), expected=exp_s, found=body)
    f = F.func('rx_swap_vec_f128')
    ren = {f['params'][0]['id']: 'A'}
    for x in walk(f['body']):
        if x['k'] == 'Decl':
            for d in x['d']:
                ren[d['id']] = 'T'
    with astq.renaming(ren), astq.nocasts():
        body = [showv(s) for s in f['body']['s']]
    R.check(body[:3] in (['double T = A.%s' % hi_, '(A.%s = A.%s)' % (hi_, lo_), '(A.%s = T)' % lo_], ['double T = A.%s' % lo_, '(A.%s = A.%s)' % (lo_, hi_), '(A.%s = T)' % hi_]), 'rx_swap_vec_f128', '%s:%d' % (f['file'], f['line']), expected='exchange lo and hi', found=body)
    f = F.func('rx_xor_vec_i128')
    ren = {f['params'][0]['id']: 'A', f['params'][1]['id']: 'B'}
    for x in walk(f['body']):
        if x['k'] == 'Decl':
            for d in x['d']:
                ren[d['id']] = 'X'
    with astq.renaming(ren), astq.nocasts():
        body = sorted(showv(s) for s in f['body']['s'] if strip_all(s)['k'] == 'Assign')
    R.eq('rx_xor_vec_i128', '%s:%d' % (f['file'], f['line']), ['(X.u32[%d] = (A.u32[%d] ^ B.u32[%d]))' % (i, i, i) for i in range(4)], body)
    simple = {
        'rx_set_int_vec_i128': ['(X.u32[0] = P3)', '(X.u32[1] = P2)', '(X.u32[2] = P1)', '(X.u32[3] = P0)'],
        'rx_set_vec_f128': ['(X.i.u64[0] = P1)', '(X.i.u64[1] = P0)'],
        'rx_set1_vec_f128': ['(X.i.u64[0] = P0)', '(X.i.u64[1] = P0)'],
        'rx_load_vec_f128': ['(X.i.u64[0] = load64((P0 + 0)))', '(X.i.u64[1] = load64((P0 + 1)))'],
        'rx_store_vec_f128': ['store64((P0 + 0), P1.i.u64[0])', 'store64((P0 + 1), P1.i.u64[1])'],
        'rx_cvt_packed_int_vec_f128': ['(X.%s = unsigned32ToSigned2sCompl(load32((P0 + 0))))' % lo_, '(X.%s = unsigned32ToSigned2sCompl(load32((P0 + 4))))' % hi_],
        'rx_cast_vec_i2f': ['(X.i = P0)'],
    }
    for q, exp in simple.items():
        f = F.func(q)
        ren = {p['id']: 'P%d' % i for i, p in enumerate(f['params'])}
        for x in walk(f['body']):
            if x['k'] == 'Decl':
                for d in x['d']:
                    ren[d['id']] = 'X'
        with astq.renaming(ren), astq.nocasts():
            body = sorted(showv(s) for s in f['body']['s'] if s['k'] not in ('Decl', 'Return'))
        R.eq(q, '%s:%d' % (f['file'], f['line']), sorted(exp), body, rule='PORT-LANEOPS' if q != 'rx_cvt_packed_int_vec_f128' else 'PORT-CVT')
    R.rule('PORT-CVT', 'rx_cvt_packed_int_vec_f128 converts two *signed* 32-bit integers (through unsigned32ToSigned2sCompl) from offsets 0 and 4 to doubles; the union layout puts lo at offset 0 and hi at offset 8', min_instances=1)
    rv = [r for r in F.records(r'^rx_vec_f128$')] or [r for r in F.records('') if r['q'].startswith('rx_vec_f128')]
    for r in F.records(r''):
        pass
    u = F.func('unsigned32ToSigned2sCompl')
    R.check(u['ret'] == 'int' and u['params'][0]['ty'] == 'unsigned int', 'unsigned32ToSigned2sCompl: uint32 -> int32', '%s:%d' % (u['file'], u['line']), expected='int (unsigned int)', found='%s (%s)' % (u['ret'], u['params'][0]['ty']))


def rule_int(ctx, R, F):
    R.rule('PORT-INT', 'the non-intrinsic integer helpers have the canonical forms: rotr / rotl as two shifts with -b & 63, the 32x32 -> 128 schoolbook mulh, smulh as mulh with the two signed corrections', min_instances=4)
    exp = {
        'rotr': ['return ((A >> B) | (A << (-B & 63)))'],
        'rotl': ['return ((A << B) | (A >> (-B & 63)))'],
        'smulh': ['long hi = mulh(A, B)', 'if (A < 0): (hi -= B)', 'if (B < 0): (hi -= A)', 'return hi'],
        'mulh': ['unsigned long ah = (A >> 32)', 'unsigned long al = (A & 4294967295)', 'unsigned long bh = (B >> 32)', 'unsigned long bl = (B & 4294967295)',
                 'unsigned long x00 = (al * bl)', 'unsigned long x01 = (al * bh)', 'unsigned long x10 = (ah * bl)', 'unsigned long x11 = (ah * bh)',
                 'unsigned long m1 = (((x10 & 4294967295) + (x01 & 4294967295)) + (x00 >> 32))', 'unsigned long m2 = ((((x10 >> 32) + (x01 >> 32)) + (x11 & 4294967295)) + (m1 >> 32))',
                 'unsigned long m3 = ((x11 >> 32) + (m2 >> 32))', 'return ((m3 << 32) + (m2 & 4294967295))'],
    }
    M64 = (1 << 64) - 1

    def sx64(v):
        v &= M64
        return v - (1 << 64) if v >> 63 else v
    ref = {
        'rotr': lambda a, b: ((a >> (b & 63)) | (a << ((64 - (b & 63)) & 63))) & M64 if (b & 63) else a,
        'rotl': lambda a, b: ((a << (b & 63)) | (a >> ((64 - (b & 63)) & 63))) & M64 if (b & 63) else a,
        'mulh': lambda a, b: (a * b) >> 64,
        'smulh': lambda a, b: ((sx64(a) * sx64(b)) >> 64) & M64,
    }
    edge = [0, 1, 2, 3, (1 << 31) - 1, 1 << 31, (1 << 32) - 1, 1 << 32, (1 << 32) + 1, (1 << 63) - 1, 1 << 63, (1 << 63) + 1, M64, M64 - 1, 0xFFFFFFFF00000000, 0x00000000FFFFFFFF,
            0xAAAAAAAAAAAAAAAA, 0x5555555555555555, 0x8000000080000000, 0xDEADBEEFCAFEBABE, 0x0123456789ABCDEF, 0xFFFFFFFF80000000, 0x7FFFFFFF00000001]
    for q, e in exp.items():
        f = F.func(q)
        R.saw(fn=q + '@K1', unit=f['_unit'], config='K1')
        ren = {f['params'][0]['id']: 'A'}
        if len(f['params']) > 1:
            ren[f['params'][1]['id']] = 'B'
        with astq.renaming(ren), astq.nocasts():
            body = []
            for s in f['body']['s']:
                if s['k'] == 'If':
                    body.append('if %s: %s' % (showv(s['c']), showv(s['t'])))
                elif s['k'] == 'Decl':
                    body += showv(s).split('; ')
                else:
                    body.append(showv(s))
        where = '%s:%d' % (f['file'], f['line'])
        if body == e:
            R.ok(q, where, detail='canonical form (the textbook algorithm), accepted as correct for all operands')
            continue
        if q in ('rotr', 'rotl'):
            # a rotation only moves bits: decide it for every shift count 0..63 by known-bits evaluation with one unknown input bit at a time on an
            # all-zeros and an all-ones background (each output bit must be exactly the input bit the rotation puts there)
            import domains as _d
            badr = None
            w1 = (_d.type_info(f['params'][1]['ty']) or (32, False))[0]
            for b_ in range(64):
                for k_ in range(64):
                    for bg in (0, M64):
                        kb = _d.KB(64, ~bg & M64 & ~(1 << k_), bg & ~(1 << k_))
                        ev_ = _d.KBEval(F, {f['params'][0]['id']: kb, f['params'][1]['id']: _d.KB.const(w1, b_)})
                        r = ev_.run_body(f)
                        dest = (k_ - b_) % 64 if q == 'rotr' else (k_ + b_) % 64
                        exp_known = ref[q](bg & ~(1 << k_), b_) & ~(1 << dest) & M64 if bg else 0
                        if ev_.ub:
                            badr = (b_, k_, 'undefined: ' + ev_.ub[0])
                        elif r is None or [i for i in range(64) if r.bit(i) is None] != [dest] or (r.ones & ~(1 << dest)) != (ref[q](bg, b_) & ~(1 << dest) & M64):
                            badr = (b_, k_, r.hexpat() if r is not None else None)
                        if badr:
                            break
                    if badr:
                        break
                if badr:
                    break
            R.check(badr is None, q, where, expected='%s(a, b): input bit k reaches output bit (k %s b) mod 64 for every b in 0..63' % (q, '-' if q == 'rotr' else '+'),
                    found='b = %d, input bit %d: %s' % badr if badr else 'every bit routed correctly for all 64 counts (form differs from the reference text, meaning identical)')
            continue
        # not the form this checker knows to be correct: a static argument is out of reach, but the function is pure integer code, so look for a counterexample
        # by evaluating its expression tree (fixed-width known-bits arithmetic on constants) on boundary operands
        import domains
        pairs = [(a_, b_) for a_ in edge for b_ in (edge if q in ('mulh', 'smulh') else list(range(64)))]
        bad = None
        for a_, b_ in pairs:
            env = {f['params'][0]['id']: domains.KB.const(64, a_)}
            if len(f['params']) > 1:
                w1 = (domains.type_info(f['params'][1]['ty']) or (64, False))[0]
                env[f['params'][1]['id']] = domains.KB.const(w1, b_)
            ev_ = domains.KBEval(F, env)
            r = ev_.run_body(f)
            v = r.value() if r is not None else None
            if ev_.ub:
                bad = (a_, b_, 'undefined: ' + ev_.ub[0], ref[q](a_, b_) & M64)
                break
            if v is None:
                raise AnalysisBroken('PORT-INT: %s has a non-canonical body that the evaluator cannot follow (%s)' % (q, where))
            if v & M64 != ref[q](a_, b_) & M64:
                bad = (a_, b_, v & M64, ref[q](a_, b_) & M64)
                break
        if bad:
            R.violation(q, where, expected='%s(%#x, %#x) = %#x' % (q, bad[0], bad[1], bad[3]), found=('%#x (evaluating the function body on these operands)' % bad[2]) if isinstance(bad[2], int) else bad[2])
        else:
            raise AnalysisBroken('PORT-INT: %s (%s) is not in the canonical form and no counterexample was found on %d boundary operand pairs: its correctness for all operands cannot be decided statically' % (q, where, len(pairs)))
    sm = F.func('smulh')
    R.check(sm['ret'] == 'long' and [p['ty'] for p in sm['params']] == ['long', 'long'], 'smulh signature', '%s:%d' % (sm['file'], sm['line']), expected='int64 (int64, int64)', found=(sm['ret'], [p['ty'] for p in sm['params']]))


# ---------------------------------------------------------------------------------------------------------------------------
# [PORT-ENDIAN] the byte-order branches of the portable wrappers, decided on a big-endian configuration

class _BE:
    """byte-accurate interpreter for the little load / store helpers: integers have the width of their type, unions are 16 native (big-endian) bytes,
    memory is a byte map"""
    W = {'unsigned char': 8, 'char': 8, 'uint8_t': 8, 'unsigned short': 16, 'unsigned int': 32, 'int': 32, 'uint32_t': 32, 'unsigned long': 64, 'long': 64, 'uint64_t': 64, 'unsigned long long': 64, 'long long': 64, 'double': 64}

    def __init__(self, F):
        self.F = F
        self.mem = {}
        self.objs = {}          # object id -> bytearray(16), native big-endian layout
        self.next_obj = 0x900000
        self.depth = 0

    def width(self, ty):
        t = (ty or '').replace('const ', '').replace('volatile ', '').strip()
        if t.endswith('*') or t.endswith('&'):
            return 64
        if t in self.W:
            return self.W[t]
        raise AnalysisBroken('PORT-ENDIAN: type %r' % ty)

    def scale(self, ty):
        t = (ty or '').replace('const ', '').strip()
        base = t[:-1].strip() if t.endswith('*') else None
        if base is None:
            return None
        if base in ('void', 'char', 'unsigned char', 'uint8_t'):
            return 1
        if base in self.W:
            return self.W[base] // 8
        if 'rx_vec' in base or 'vec_u' in base:
            return 16
        raise AnalysisBroken('PORT-ENDIAN: pointer arithmetic on %r' % ty)

    # ---- union lanes: ('lane', obj, bits, index)
    def lane_read(self, obj, bits, idx):
        nb = bits // 8
        b = self.objs[obj][idx * nb:(idx + 1) * nb]
        return int.from_bytes(bytes(b), 'big')

    def lane_write(self, obj, bits, idx, v):
        nb = bits // 8
        self.objs[obj][idx * nb:(idx + 1) * nb] = (v & ((1 << bits) - 1)).to_bytes(nb, 'big')

    def lane_of(self, n, env):
        """(obj, bits, idx) for expressions like b.u32[i], x.i.u64[k], a.lo"""
        n = strip_all(n)
        while n['k'] == 'Cast':
            n = strip_all(n['e'])
        if n['k'] == 'Idx':
            b = strip_all(n['b'])
            while b['k'] == 'Cast':
                b = strip_all(b['e'])
            if b['k'] == 'Mem' and b.get('m') in ('u64', 'u32', 'u16', 'u8', 'i64', 'i32', 'd64'):
                bits = {'u64': 64, 'i64': 64, 'd64': 64, 'u32': 32, 'i32': 32, 'u16': 16, 'u8': 8}[b['m']]
                obj = self.obj_of(b['b'], env)
                i = self.ev(n['i'], env)
                return obj, bits, i
        if n['k'] == 'Mem' and n.get('m') in ('lo', 'hi'):
            return self.obj_of(n['b'], env), 64, 0 if n['m'] == 'lo' else 1
        return None

    def obj_of(self, n, env):
        n = strip_all(n)
        while n['k'] == 'Cast':
            n = strip_all(n['e'])
        if n['k'] == 'Mem' and n.get('m') in ('i', 'd', ''):
            return self.obj_of(n['b'], env)
        if n['k'] == 'Ref' and isinstance(env.get(n.get('id')), tuple) and env[n['id']][0] == 'obj':
            return env[n['id']][1]
        raise AnalysisBroken('PORT-ENDIAN: object %s' % show(n)[:40])

    def new_obj(self):
        self.next_obj += 16
        self.objs[self.next_obj] = bytearray(16)
        return self.next_obj

    def ev(self, n, env):
        n0 = n
        n = strip_all(n)
        if 'v' in n and n['k'] not in ('Assign', 'CAssign', 'Ref', 'Un'):
            return n['v']
        k = n['k']
        if k == 'Cast':
            v = self.ev(n['e'], env)
            if n.get('ck') == 'IntegralCast' and isinstance(v, int):
                return v & ((1 << self.width(n.get('ty'))) - 1)
            return v
        if k == 'Ref':
            if n.get('id') in env:
                return env[n['id']]
            if 'v' in n:
                return n['v']
            raise AnalysisBroken('PORT-ENDIAN: value of %s' % show(n))
        if k in ('Idx', 'Mem'):
            ln = self.lane_of(n, env)
            if ln is not None:
                return self.lane_read(*ln)
            if k == 'Mem' and n.get('m') in ('i', 'd'):
                # the integer view of the float vector union (or back): the same sixteen native bytes
                return ('obj', self.obj_of(n, env))
            raise AnalysisBroken('PORT-ENDIAN: read of %s' % show(n)[:50])
        if k == 'Un':
            op = n.get('op')
            if op == '*':
                e = strip_all(n['e'])
                while e['k'] == 'Cast':
                    e = strip_all(e['e'])
                if e['k'] == 'Un' and '++' in e.get('op', '') and e.get('post'):
                    r = strip_all(e['e'])
                    a = env[r['id']]
                    env[r['id']] = a + (self.scale(r.get('ty')) or 1)
                    return self.mem.get(a, 0xEE)
                a = self.ev(n['e'], env)
                if isinstance(a, int):
                    if a in self.objs:
                        return ('obj', a)
                    if 'rx_vec' in (n.get('ty') or ''):
                        o = self.new_obj()          # a whole-object load copies the native layout
                        self.objs[o][:] = bytes(self.mem.get(a + j, 0xEE) for j in range(16))
                        return ('obj', o)
                    return self.mem.get(a, 0xEE)
            if op == '&':
                e = strip_all(n['e'])
                if e['k'] == 'Ref' and isinstance(env.get(e.get('id')), tuple):
                    return env[e['id']][1]
                if e['k'] == 'Ref' and e.get('id') in env and isinstance(env[e['id']], int) and e.get('arr'):
                    return env[e['id']]
            if op == '~':
                return ~self.ev(n['e'], env) & ((1 << self.width(n.get('ty'))) - 1)
            if op in ('++', '--'):
                r = strip_all(n['e'])
                if r['k'] == 'Ref' and isinstance(env.get(r.get('id')), int):
                    old_ = env[r['id']]
                    env[r['id']] = old_ + (self.scale(r.get('ty')) or 1) * (1 if op == '++' else -1)
                    return old_ if n.get('post') else env[r['id']]
            raise AnalysisBroken('PORT-ENDIAN: unary %s in %s' % (op, show(n)[:40]))
        if k == 'Bin':
            op = n['op']
            a, b = self.ev(n['l'], env), self.ev(n['r'], env)
            if op in ('+', '-'):
                sl = self.scale(n['l'].get('ty'))
                sr = self.scale(n['r'].get('ty'))
                if sl and not sr:
                    b *= sl
                elif sr and not sl:
                    a *= sr
                return a + b if op == '+' else a - b
            if op in ('<', '<=', '>', '>=', '==', '!='):
                return int({'<': a < b, '<=': a <= b, '>': a > b, '>=': a >= b, '==': a == b, '!=': a != b}[op])
            if op == '*':
                return (a * b) & ((1 << self.width(n.get('ty'))) - 1)
            w = self.width(n.get('ty'))
            m = (1 << w) - 1
            if op == '<<':
                return (a << b) & m
            if op == '>>':
                return (a >> b) & m
            if op == '|':
                return (a | b) & m
            if op == '&':
                return a & b & m
            if op == '^':
                return (a ^ b) & m
            raise AnalysisBroken('PORT-ENDIAN: operator %s' % op)
        if k == 'Call':
            return self.call(n, env)
        if k == 'Construct' and n.get('trivial'):
            if not n.get('a'):
                return ('obj', self.new_obj())
            if len(n['a']) == 1:
                return self.ev(n['a'][0], env)
        raise AnalysisBroken('PORT-ENDIAN: expression %s' % show(n)[:60])

    def call(self, n, env):
        nm = n.get('name')
        if n.get('opcall') == '=' and astq.is_node(n.get('this')) and len(n.get('a', [])) == 1:
            # trivial copy assignment of the vector union: sixteen native bytes
            rv = self.ev(n['a'][0], env)
            l = strip_all(n['this'])
            if not (isinstance(rv, tuple) and rv[0] == 'obj'):
                raise AnalysisBroken('PORT-ENDIAN: operator= of %s' % show(n)[:50])
            if l['k'] == 'Un' and l.get('op') == '*':
                a = self.ev(l['e'], env)
                if a in self.objs:
                    self.objs[a][:] = self.objs[rv[1]]
                else:
                    for j in range(16):
                        self.mem[a + j] = self.objs[rv[1]][j]
            else:
                self.objs[self.obj_of(l, env)][:] = self.objs[rv[1]]
            return None
        if nm in ('memcpy', '__builtin_memcpy', '__builtin___memcpy_chk') and len(n.get('a', [])) >= 3:
            # a copy between memory and the object representation of a local integer: on the (big-endian) target of this parse the most significant byte comes first
            def side(a):
                a = strip_all(a)
                while a['k'] == 'Cast':
                    a = strip_all(a['e'])
                if a['k'] == 'Un' and a.get('op') == '&':
                    e = strip_all(a['e'])
                    if e['k'] == 'Ref' and isinstance(env.get(e.get('id')), int) or (e['k'] == 'Ref' and e.get('id') not in env and e.get('dk') in ('Var', 'ParmVar')):
                        return ('var', e['id'], self.width(e.get('ty')) // 8)
                return ('mem', self.ev(a, env))
            d_, s_ = side(n['a'][0]), side(n['a'][1])
            cnt = self.ev(n['a'][2], env)
            if d_[0] == 'var' and s_[0] == 'mem' and cnt == d_[2]:
                env[d_[1]] = int.from_bytes(bytes(self.mem.get(s_[1] + j, 0xEE) for j in range(cnt)), 'big')
                return None
            if d_[0] == 'mem' and s_[0] == 'var' and cnt == s_[2]:
                for j, b in enumerate((env[s_[1]] & ((1 << (8 * cnt)) - 1)).to_bytes(cnt, 'big')):
                    self.mem[d_[1] + j] = b
                return None
            if d_[0] == 'mem' and s_[0] == 'mem' and isinstance(cnt, int):
                for j in range(cnt):
                    self.mem[d_[1] + j] = self.mem.get(s_[1] + j, 0xEE)
                return None
            raise AnalysisBroken('PORT-ENDIAN: memcpy of %s' % show(n)[:60])
        args = [self.ev(a, env) for a in n.get('a', [])]
        fn_ = n.get('fn') or nm
        if not self.F.has_func(fn_):
            raise AnalysisBroken('PORT-ENDIAN: call of %s' % fn_)
        return self.run(self.F.func(fn_), args)

    def run(self, f, args):
        self.depth += 1
        if self.depth > 6:
            raise AnalysisBroken('PORT-ENDIAN: recursion')
        env = {}
        for p_, a in zip(f['params'], args):
            if isinstance(a, tuple) and a[0] == 'obj':
                # by-value struct: copy
                o = self.new_obj()
                self.objs[o][:] = self.objs[a[1]]
                env[p_['id']] = ('obj', o)
            else:
                env[p_['id']] = a
        try:
            r = self.block(f['body'], env)
        finally:
            self.depth -= 1
        return r[1] if isinstance(r, tuple) and r[0] == 'ret' else None

    def block(self, s, env):
        for st in (s['s'] if s['k'] == 'Compound' else [s]):
            k = st['k']
            if k == 'Decl':
                for d in st['d']:
                    ty = d.get('ty') or ''
                    if 'rx_vec' in ty and '*' not in ty:
                        o = self.new_obj()
                        env[d['id']] = ('obj', o)
                        if d.get('init') is not None:
                            v = self.ev(d['init'], env)
                            if isinstance(v, tuple) and v[0] == 'obj':
                                self.objs[o][:] = self.objs[v[1]]
                        continue
                    if d.get('arrlen') is not None or re.search(r'\[\d+\]$', ty):
                        self.next_obj += 64
                        env[d['id']] = self.next_obj + 0x100000
                        continue
                    if d.get('init') is not None:
                        v = self.ev(d['init'], env)
                        if isinstance(v, int) and '*' not in ty:
                            v &= (1 << self.width(ty)) - 1
                        env[d['id']] = v
                    elif '*' not in ty:
                        env[d['id']] = 0xEEEEEEEEEEEEEEEE & ((1 << self.width(ty)) - 1)      # uninitialised
                continue
            if k == 'Return':
                return ('ret', self.ev(st['e'], env) if astq.is_node(st.get('e')) else None)
            if k == 'Compound':
                r = self.block(st, env)
                if r is not None:
                    return r
                continue
            if k in ('For', 'While'):
                if astq.is_node(st.get('init')):
                    self.block(st['init'], env)
                n_it = 0
                while not astq.is_node(st.get('c')) or self.ev(st['c'], env):
                    n_it += 1
                    if n_it > 64:
                        raise AnalysisBroken('PORT-ENDIAN: loop without a small bound')
                    r = self.block(st['b'], env)
                    if r is not None:
                        return r
                    if astq.is_node(st.get('inc')):
                        self.block(st['inc'], env)
                continue
            top = strip_all(st)
            if top['k'] in ('Assign', 'CAssign'):
                l = strip_all(top['l'])
                rv = self.ev(top['r'], env)
                if l['k'] == 'Un' and l.get('op') == '*':
                    e = strip_all(l['e'])
                    while e['k'] == 'Cast':
                        e = strip_all(e['e'])
                    if e['k'] == 'Un' and '++' in e.get('op', '') and e.get('post'):
                        r = strip_all(e['e'])
                        a = env[r['id']]
                        env[r['id']] = a + (self.scale(r.get('ty')) or 1)
                    else:
                        a = self.ev(l['e'], env)
                    if isinstance(rv, tuple) and rv[0] == 'obj':
                        for j in range(16):         # a whole-object store copies the native layout
                            self.mem[a + j] = self.objs[rv[1]][j]
                        continue
                    self.mem[a] = rv & 0xff
                    continue
                ln = self.lane_of(l, env)
                if ln is not None:
                    self.lane_write(ln[0], ln[1], ln[2], rv)
                    continue
                if l['k'] == 'Mem' and l.get('m') in ('i', 'd') and isinstance(rv, tuple) and rv[0] == 'obj':
                    self.objs[self.obj_of(l, env)][:] = self.objs[rv[1]]
                    continue
                if l['k'] == 'Ref':
                    if top['k'] == 'CAssign':
                        cur = env[l['id']]
                        w = self.width(l.get('ty'))
                        m = (1 << w) - 1
                        op = top['op'][:-1]
                        rv = {'|': lambda: cur | rv, '&': lambda: cur & rv, '>>': lambda: cur >> rv, '<<': lambda: (cur << rv) & m, '+': lambda: cur + rv, '^': lambda: cur ^ rv}[op]() & m
                    env[l['id']] = rv
                    continue
                raise AnalysisBroken('PORT-ENDIAN: assignment to %s' % show(l)[:50])
            if top['k'] == 'Call':
                self.call(top, env)
                continue
            if top['k'] == 'Un':
                self.ev(top, env)
                continue
            raise AnalysisBroken('PORT-ENDIAN: statement %s' % show(top)[:60])
        return None


def rule_endian(ctx, R):
    R.rule('PORT-ENDIAN', 'on a big-endian target the portable load / store helpers still produce and consume the little-endian memory image the specification defines: load32 / load64 / store32 / store64 of blake2/endian.h byte by byte, '
           'rx_load_vec_i128 / rx_store_vec_i128 lane by lane (32-bit lanes at offsets 0, 4, 8, 12), rx_load_vec_f128 / rx_store_vec_f128 (64-bit lanes at 0, 8) and the two casts between them; decided by a byte-accurate '
           'evaluation of the helper bodies as parsed for big-endian targets (s390x for everything; aarch64_be, powerpc64, mips64, sparc64 for the scalar helpers, so that the byte-order predicate of endian.h is exercised as well), with unions and memcpy of integers laid out in native byte order', min_instances=30)
    BASE = 0x1000

    def where(f):
        return '%s:%d' % (f['file'], f['line'])

    def scalars(F, tag):
        for nm, nb in (('store32', 4), ('store64', 8), ('store48', 6)):
            if not F.has_func(nm):
                if nm == 'store48':
                    continue
                raise AnalysisBroken('PORT-ENDIAN: %s not found in configuration %s' % (nm, tag))
            f = F.func(nm)
            R.saw(fn=f['q'])
            be = _BE(F)
            be.run(f, [BASE, int.from_bytes(bytes(range(1, nb + 1)), 'little')])
            got = [be.mem.get(BASE + j) for j in range(nb)]
            R.check(got == list(range(1, nb + 1)) and len(be.mem) == nb, '%s %s' % (tag, nm), where(f), expected='byte k of the value at offset k', found=got)
        for nm, nb in (('load32', 4), ('load64', 8), ('load48', 6)):
            if not F.has_func(nm):
                if nm == 'load48':
                    continue
                raise AnalysisBroken('PORT-ENDIAN: %s not found in configuration %s' % (nm, tag))
            f = F.func(nm)
            R.saw(fn=f['q'])
            be = _BE(F)
            be.mem = {BASE + j: j + 1 for j in range(nb)}
            got = be.run(f, [BASE])
            want = int.from_bytes(bytes(range(1, nb + 1)), 'little')
            R.check(got == want, '%s %s' % (tag, nm), where(f), expected='%#x' % want, found='%#x' % got if isinstance(got, int) else got)
    # the scalar helpers under every big-endian target that parses here: whichever branch the byte-order predicate of endian.h selects there must be a correct one
    for cfg, tag in (('K7a', 'aarch64_be'), ('K7b', 'powerpc64'), ('K7c', 'mips64'), ('K7d', 'sparc64')):
        R.saw(config=cfg)
        scalars(astq.Facts(ctx, cfg), tag)
    F = astq.Facts(ctx, 'K6')
    R.saw(config='K6')
    img = {j: j + 1 for j in range(16)}
    L = [int.from_bytes(bytes(j + 1 for j in range(4 * i, 4 * i + 4)), 'little') for i in range(4)]
    Q = [int.from_bytes(bytes(j + 1 for j in range(8 * i, 8 * i + 8)), 'little') for i in range(2)]
    scalars(F, 's390x')
    # 128-bit integer vectors
    f = F.func('rx_store_vec_i128')
    R.saw(fn=f['q'])
    be = _BE(F)
    o = be.new_obj()
    for i in range(4):
        be.lane_write(o, 32, i, L[i])
    be.run(f, [BASE, ('obj', o)])
    got = [be.mem.get(BASE + j) for j in range(16)]
    R.check(got == [img[j] for j in range(16)], 'rx_store_vec_i128', where(f), expected='lane i (32 bits) little-endian at offset 4i', found=got)
    f = F.func('rx_load_vec_i128')
    R.saw(fn=f['q'])
    be = _BE(F)
    be.mem = {BASE + j: img[j] for j in range(16)}
    r = be.run(f, [BASE])
    lanes = [be.lane_read(r[1], 32, i) for i in range(4)] if isinstance(r, tuple) else None
    R.check(lanes == L, 'rx_load_vec_i128', where(f), expected=[hex(x) for x in L], found=[hex(x) for x in lanes] if lanes else r)
    # 128-bit float vectors (two 64-bit lanes)
    f = F.func('rx_store_vec_f128')
    R.saw(fn=f['q'])
    be = _BE(F)
    o = be.new_obj()
    for i in range(2):
        be.lane_write(o, 64, i, Q[i])
    be.run(f, [BASE, ('obj', o)])
    got = [be.mem.get(BASE + j) for j in range(16)]
    R.check(got == [img[j] for j in range(16)], 'rx_store_vec_f128', where(f), expected='lane k (64 bits) little-endian at offset 8k', found=got)
    f = F.func('rx_load_vec_f128')
    R.saw(fn=f['q'])
    be = _BE(F)
    be.mem = {BASE + j: img[j] for j in range(16)}
    r = be.run(f, [BASE])
    lanes = [be.lane_read(r[1], 64, i) for i in range(2)] if isinstance(r, tuple) else None
    R.check(lanes == Q, 'rx_load_vec_f128', where(f), expected=[hex(x) for x in Q], found=[hex(x) for x in lanes] if lanes else r)
    # casts: the 64-bit lanes of the result are the pairs of 32-bit lanes of the argument, low lane first (what sharing the storage gives on a little-endian machine)
    f = F.func('rx_cast_vec_i2f')
    R.saw(fn=f['q'])
    be = _BE(F)
    o = be.new_obj()
    for i in range(4):
        be.lane_write(o, 32, i, L[i])
    r = be.run(f, [('obj', o)])
    lanes = [be.lane_read(r[1], 64, i) for i in range(2)] if isinstance(r, tuple) else None
    R.check(lanes == Q, 'rx_cast_vec_i2f', where(f), expected=[hex(x) for x in Q], found=[hex(x) for x in lanes] if lanes else r)
    f = F.func('rx_cast_vec_f2i')
    R.saw(fn=f['q'])
    be = _BE(F)
    o = be.new_obj()
    for i in range(2):
        be.lane_write(o, 64, i, Q[i])
    r = be.run(f, [('obj', o)])
    lanes = [be.lane_read(r[1], 32, i) for i in range(4)] if isinstance(r, tuple) else None
    R.check(lanes == L, 'rx_cast_vec_f2i', where(f), expected=[hex(x) for x in L], found=[hex(x) for x in lanes] if lanes else r)


# ---------------------------------------------------------------------------------------------------------------------------
# [PORT-ENDIAN-PAIR] an object that is read through the little-endian helpers is written through them too
LE_READERS = ('load32', 'load64', 'load48', 'rx_load_vec_f128', 'rx_load_vec_i128', 'rx_cvt_packed_int_vec_f128')
LE_WRITERS = ('store32', 'store64', 'store48', 'rx_store_vec_f128', 'rx_store_vec_i128')


def rule_endian_pair(ctx, R):
    R.rule('PORT-ENDIAN-PAIR', 'on a big-endian target the helpers load32 / load64 / rx_load_vec_* assemble a value from bytes in little-endian order: a member that some function reads through such a helper (the E-register masks of '
           'the program configuration, ...) must get its value through the matching store helper, never by a plain assignment - a native store followed by a little-endian load returns the byte-swapped value; '
           'decided on the big-endian cross parse (s390x) of the interpreter units', min_instances=1)
    F = astq.Facts(ctx, 'K6')
    R.saw(config='K6')

    def member_of(n):
        """(class, member) of the object whose address / array the expression designates"""
        n = strip_all(n)
        while n['k'] in ('Cast', 'Paren') or (n['k'] == 'Un' and n.get('op') in ('&', '*')) or n['k'] == 'Idx':
            n = strip_all(n['e'] if n['k'] in ('Cast', 'Paren', 'Un') else n['b'])
        if n['k'] == 'Mem' and n.get('dk') == 'Field':
            return (n.get('cls'), n.get('m'))
        return None
    read = {}
    funcs = [f for f in F.all_funcs() if f.get('body') is not None and f['file'].startswith(ctx.repo)]
    seen = set()
    for f in funcs:
        if (f['q'], f['file'], f['line']) in seen:
            continue
        seen.add((f['q'], f['file'], f['line']))
        for x in walk(f['body']):
            if x['k'] == 'Call' and x.get('name') in LE_READERS and x.get('a'):
                m = member_of(x['a'][0])
                if m and m[0]:
                    read.setdefault(m, '%s:%d' % (f['file'], x.get('ln') or f['line']))
    if not read:
        raise AnalysisBroken('PORT-ENDIAN-PAIR: no member is read through a little-endian helper in the big-endian parse')
    seen = set()
    native = {}
    helper = {}
    for f in funcs:
        if (f['q'], f['file'], f['line']) in seen:
            continue
        seen.add((f['q'], f['file'], f['line']))
        for x in walk(f['body']):
            if x['k'] in ('Assign', 'CAssign'):
                m = member_of(x['l'])
                l = strip_all(x['l'])
                if m in read and l['k'] in ('Idx', 'Mem'):
                    native.setdefault(m, []).append('%s:%d `%s`' % (f['file'], x.get('ln') or f['line'], show(x)[:70]))
            if x['k'] == 'Call' and x.get('name') in LE_WRITERS and x.get('a'):
                m = member_of(x['a'][0])
                if m in read:
                    helper.setdefault(m, []).append('%s:%d' % (f['file'], x.get('ln') or f['line']))
    for m, where in sorted(read.items(), key=lambda kv: str(kv[0])):
        inst = '%s::%s' % m
        if m in native:
            R.violation(inst, native[m][0].split(' ')[0], expected='written through store32 / store64 / rx_store_vec_* (it is read through a little-endian helper at %s)' % where, found='plain assignment: ' + '; '.join(native[m][:2]))
        else:
            R.ok(inst + (' (written through a helper at %s)' % helper[m][0] if m in helper else ' (no writer in the parsed units)'), where)
