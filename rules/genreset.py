"""[GEN-RESET] no generator state leaks from one generate* call into the next.

The JIT compiler objects live as long as the VM / cache and their generate* entry points are called once per program (eight times per
hash) or once per key.  Every scalar member that the instruction handlers or the emit helpers advance while they translate one program
(code position, literal position / count, ...) must therefore be given its starting value by the entry point itself, on every path,
before anything reads it; a member that is only initialised by the constructor makes the second program differ from the first.

Decided on the statement-level CFG of every function of the back-end's unit with an interprocedural summary per (function, member):
  needs(f, m)   some path from f's entry reads m (directly, through a read-modify-write, or in a callee that needs it) before m is set
  mustset(f, m) every path from f's entry to its normal exit sets m (a plain assignment whose right-hand side does not read m, or a callee that must set it)
The indirect call through the handler table counts as a call of every handler.  The rule: needs(entry, m) is false for every entry point and every advanced member."""
import astq
from astq import CFG, calls, loc, show, strip_all, walk
from core import AnalysisBroken
from rules import jit

# members that deliberately carry information from one call to the next: (class, member) -> reason.  Confirmed by reading.
PERSISTENT = {
}

ENTRY_RE = ('generateProgram', 'generateProgramLight', 'generateSuperscalarHash', 'generateDatasetInitCode')


def _key(m):
    return (m.get('cls'), m.get('m'))


def _is_scalar_member(n):
    return n['k'] == 'Mem' and n.get('dk') == 'Field' and n.get('cls') and '[' not in (n.get('ty') or '') and '*' not in (n.get('ty') or '') and \
        (n.get('ty') or '').replace('const ', '') in ('int', 'unsigned int', 'uint32_t', 'int32_t', 'size_t', 'unsigned long', 'long', 'uint64_t', 'int64_t', 'unsigned', 'uint8_t *')


class Summaries:
    def __init__(self, F, funcs, handlers, is_member=None):
        self.F = F
        self.is_member = is_member or _is_scalar_member
        self.by_q = {}
        for f in funcs:
            if f.get('body') is not None:
                self.by_q.setdefault(f['q'], f)
        self.handlers = [h for h in handlers if h.get('body') is not None]
        self.cfg = {}
        self.memo = {}
        self.active = set()
        self.effects = {}

    def node_effects(self, f):
        """per CFG node: ordered list of ('read', key) / ('set', key) / ('rmw', key) / ('call', q) / ('icall',)"""
        if f['q'] in self.effects:
            return self.effects[f['q']]
        g = CFG(f)
        self.cfg[f['q']] = g
        out = {}
        for n in g.nodes:
            st = n['stmt']
            if st is None or not astq.is_node(st):
                continue
            evs = []
            pure_lhs = set()
            for x in walk(st):
                if x['k'] == 'Assign':
                    l = strip_all(x['l'])
                    if self.is_member(l):
                        reads_self = any(y['k'] == 'Mem' and _key(y) == _key(l) for y in walk(x['r']))
                        evs.append(('rmw' if reads_self else 'set', _key(l)))
                        pure_lhs.add(id(l))
                elif x['k'] == 'CAssign':
                    l = strip_all(x['l'])
                    if self.is_member(l):
                        evs.append(('rmw', _key(l)))
                        pure_lhs.add(id(l))
                elif x['k'] == 'Un' and ('++' in x.get('op', '') or '--' in x.get('op', '')):
                    l = strip_all(x['e'])
                    if self.is_member(l):
                        evs.append(('rmw', _key(l)))
                        pure_lhs.add(id(l))
                elif x['k'] == 'Call':
                    if x.get('fn'):
                        evs.append(('call', x['fn']))
                    elif 'callee' in x:
                        evs.append(('icall',))
            for x in walk(st):
                if self.is_member(x) and id(x) not in pure_lhs:
                    evs.append(('read', _key(x)))
            # evaluation order inside one statement: reads and calls (arguments) come before the store of an assignment
            order = {'read': 0, 'call': 1, 'icall': 1, 'rmw': 2, 'set': 3}
            evs.sort(key=lambda e: order[e[0]])
            out[n['id']] = evs
        self.effects[f['q']] = out
        return out

    def summary(self, q, m):
        """(needs, mustset) of function q for member m"""
        k = (q, m)
        if k in self.memo:
            return self.memo[k]
        f = self.by_q.get(q)
        if f is None or k in self.active:
            return (False, False)
        self.active.add(k)
        try:
            eff = self.node_effects(f)
            g = self.cfg[q]
            kind = {}      # node -> 'need' (reads before setting inside the node), 'set' (sets, no earlier read), None
            for nid, evs in eff.items():
                st = None
                for e in evs:
                    if e[0] in ('read', 'rmw') and e[1] == m:
                        st = 'need'
                        break
                    if e[0] == 'set' and e[1] == m:
                        st = 'set'
                        break
                    if e[0] == 'call':
                        nd, ms = self.summary(e[1], m)
                        if nd:
                            st = 'need'
                            break
                        if ms:
                            st = 'set'
                            break
                    if e[0] == 'icall':
                        res = [self.summary(h['q'], m) for h in self.handlers]
                        if any(r[0] for r in res):
                            st = 'need'
                            break
                        if res and all(r[1] for r in res):
                            st = 'set'
                            break
                kind[nid] = st
            # forward reachability from entry along nodes that do not set m
            seen, todo = set(), [g.entry]
            needs = False
            reaches_exit_unset = False
            first = None
            while todo:
                x = todo.pop()
                if x in seen:
                    continue
                seen.add(x)
                kd = kind.get(x)
                if kd == 'need':
                    needs = True
                    if first is None or x < first:
                        first = x
                    continue
                if kd == 'set':
                    continue
                if x == g.exit:
                    reaches_exit_unset = True
                todo.extend(g.succ[x])
            res = (needs, not reaches_exit_unset)
            self.first_need = getattr(self, 'first_need', {})
            if needs:
                self.first_need[k] = g.nodes[first]['stmt']
        finally:
            self.active.discard(k)
        self.memo[k] = res
        return res

    def touches(self, q, m, seen=None):
        """f or something it calls reads or writes m"""
        seen = set() if seen is None else seen
        if q in seen or q not in self.by_q:
            return False
        seen.add(q)
        for evs in self.node_effects(self.by_q[q]).values():
            for e in evs:
                if e[0] in ('read', 'set', 'rmw') and e[1] == m:
                    return True
                if e[0] == 'call' and self.touches(e[1], m, seen):
                    return True
                if e[0] == 'icall' and any(self.touches(h['q'], m, seen) for h in self.handlers):
                    return True
        return False

    def advanced(self):
        """members that some function of the unit read-modify-writes (or reads and separately writes)"""
        rd, wr = {}, {}
        for q, f in self.by_q.items():
            for nid, evs in self.node_effects(f).items():
                for e in evs:
                    if e[0] == 'rmw':
                        rd.setdefault(e[1], q)
                        wr.setdefault(e[1], q)
                    elif e[0] == 'read':
                        rd.setdefault(e[1], q)
                    elif e[0] == 'set':
                        wr.setdefault(e[1], q)
        return rd, wr


def rule_gen_reset(ctx, R, arch, min_pairs=3):
    A = jit.ARCH[arch]
    F, hs = jit.handlers(ctx, arch)
    R.rule('GEN-RESET', 'no generator state leaks from one generate* call into the next: every scalar member of the compiler object (or of its code-buffer state) that handlers or emit helpers advance while translating '
           '(code position, literal position / count) is set by each entry point generateProgram / generateProgramLight / generateSuperscalarHash / generateDatasetInitCode, on every path, before anything reads it '
           '(interprocedural needs / must-set summaries over the statement CFGs; the handler-table call stands for every handler)', min_instances=3)
    R.saw(config=A['config'], unit=A['unit'])
    base = A['unit'].split('/')[-1].rsplit('.', 1)[0]
    funcs = [f for f in F.all_funcs() if f.get('body') is not None and f['file'].split('/')[-1].rsplit('.', 1)[0] in (base, base + '_static')]
    handlers = [h.f for h in hs.values() if hasattr(h, 'f')]
    if len(funcs) < 20:
        raise AnalysisBroken('GEN-RESET(%s): only %d functions of the unit found' % (arch, len(funcs)))
    S = Summaries(F, funcs, handlers)
    cls = A['cls']
    entries = [f for f in funcs if f.get('cls') == cls and f['name'] in ENTRY_RE]
    if len(entries) < 3:
        raise AnalysisBroken('GEN-RESET(%s): only %d entry points found' % (arch, len(entries)))
    rd, wr = S.advanced()
    # advanced = written somewhere outside constructors and read somewhere: state that changes while generating
    ctor = set(f['q'] for f in funcs if f.get('kind') in ('ctor', 'dtor') or f['name'] == cls.split('::')[-1] or f['name'].startswith('~'))
    adv = set()
    for q, f in S.by_q.items():
        if q in ctor:
            continue
        for nid, evs in S.node_effects(f).items():
            for e in evs:
                if e[0] in ('rmw', 'set'):
                    adv.add(e[1])
    adv = sorted(m for m in adv if m in rd)
    R.extra.setdefault('gen_reset_members', {})[arch] = ['%s::%s' % m for m in adv]
    n = 0
    for e in sorted(entries, key=lambda f: f['q']):
        R.saw(fn=e['q'])
        for m in adv:
            nd, ms = S.summary(e['q'], m)
            if not nd and not ms and not S.touches(e['q'], m):
                # the entry point neither sets nor needs the member (e.g. the SuperscalarHash entry and a program-only counter)
                continue
            n += 1
            inst = '%s: %s' % (e['q'].split('::')[-1], m[1])
            if (m in PERSISTENT) and nd:
                R.ok(inst, '%s:%d' % (e['file'], e['line']), detail='carried across calls by design: ' + PERSISTENT[m])
                continue
            st = S.first_need.get((e['q'], m)) if nd else None
            R.check(not nd, inst, loc(st, e) if st is not None else '%s:%d' % (e['file'], e['line']), expected='%s::%s is set by the entry point before it is read' % m,
                    found=('read before it is set (first at `%s`): the value left by the previous call leaks into this one' % show(st)[:70]) if nd else 'set first')
    if n < min_pairs:
        raise AnalysisBroken('GEN-RESET(%s): only %d (entry point, member) pairs examined' % (arch, n))


# ---------------------------------------------------------------------------------------------------------------------------
# [CTOR-INIT] a member the constructor leaves indeterminate is not read by the functions that are supposed to give it its first value
import re as _re

_PLAIN = _re.compile(r'^(const )?((unsigned |signed )?(char|short|int|long|long long)|unsigned|bool|size_t|u?int(8|16|32|64)_t|randomx_flags|[\w: ]+\*+)$')


def _is_plain_member(n):
    return n['k'] == 'Mem' and n.get('dk') == 'Field' and n.get('cls') and bool(_PLAIN.match((n.get('ty') or '').strip()))


def rule_ctor_init(ctx, R, arch):
    A = jit.ARCH[arch]
    F, hs = jit.handlers(ctx, arch)
    R.rule('CTOR-INIT', 'a plain member (integer, flag word, pointer) of the JIT compiler object that neither the constructor nor a default member initialiser sets has an indeterminate value in a new object '
           '(the object is carved out of recycled heap memory): at least one of the functions that assign it must do so without reading it first, otherwise whichever runs first on a new object reads the '
           'previous owner\'s bytes (needs / must-set summaries of GEN-RESET over every function that writes the member)', min_instances=1)
    R.saw(config=A['config'], unit=A['unit'])
    base = A['unit'].split('/')[-1].rsplit('.', 1)[0]
    funcs = [f for f in F.all_funcs() if f.get('body') is not None and f['file'].split('/')[-1].rsplit('.', 1)[0] in (base, base + '_static')]
    handlers = [h.f for h in hs.values() if hasattr(h, 'f')]
    S = Summaries(F, funcs, handlers, is_member=_is_plain_member)
    cls = A['cls']
    rec = [r for u in (F.unit(A['unit']),) for r in u.get('records', []) if r['q'] == cls]
    if not rec:
        raise AnalysisBroken('CTOR-INIT(%s): record %s not found' % (arch, cls))
    fields = [fd for fd in rec[0]['fields'] if _PLAIN.match((fd.get('ty') or '').strip())]
    ctors = [f for f in funcs if f.get('cls') == cls and f.get('kind') == 'ctor']
    if not ctors:
        raise AnalysisBroken('CTOR-INIT(%s): no constructor of %s with a body' % (arch, cls))
    n = 0
    for fd in fields:
        m = (cls, fd['name'])
        init = fd.get('init') is not None
        for c in ctors:
            if any(i_.get('member') == fd['name'] for i_ in (c.get('inits') or [])):
                init = True
            elif S.summary(c['q'], m)[1]:
                init = True
        n += 1
        where = '%s:%d' % (rec[0]['file'], rec[0]['line'])
        if init:
            R.ok('%s::%s initialised by the constructor' % (cls.split('::')[-1], fd['name']), where)
            continue
        writers, readers = [], []
        for q, f in S.by_q.items():
            if f.get('kind') in ('ctor', 'dtor'):
                continue
            for evs in S.node_effects(f).values():
                for e in evs:
                    if e[0] in ('set', 'rmw') and e[1] == m and q not in writers:
                        writers.append(q)
                    if e[0] in ('read', 'rmw') and e[1] == m and q not in readers:
                        readers.append(q)
        inst = '%s::%s (not set by the constructor)' % (cls.split('::')[-1], fd['name'])
        if not writers:
            R.check(not readers, inst, where, expected='never read, or assigned somewhere', found='read in %s, never assigned' % ', '.join(r_.split('::')[-1] for r_ in readers[:3]) if readers else 'unused')
            continue
        clean = [q for q in writers if not S.summary(q, m)[0]]
        R.check(bool(clean), inst, where, expected='a function that assigns it without reading it first (%s)' % ', '.join(w.split('::')[-1] for w in writers[:4]),
                found=('every writer reads it first: ' + '; '.join('%s at `%s`' % (w.split('::')[-1], show(S.first_need.get((w, m)))[:60] if S.first_need.get((w, m)) is not None else '?') for w in writers[:3])) if not clean else 'first assigned by ' + clean[0].split('::')[-1])
    if n < 2:
        raise AnalysisBroken('CTOR-INIT(%s): only %d plain members found' % (arch, n))
