"""C05 Every instruction word executes with the specified semantics."""
import astq
from rules import a64hsem, a64sem, decode, interpsem, jit, jitcross, rv64, rvhsem, sshash, x86hsem, a64fp, rvfp, cfrcross, portable

LEVEL = 'other'
TECHNIQUE = ('exhaustive path enumeration of the decoder against the specification tables + known-bits abstract interpretation of FP bit-pattern constructors; known-bits abstract execution of the A64 immediate helpers with the architectural meaning of the emitted instructions'
         '; symbolic translation validation of the integer register-form handlers: known-bits execution of the emitter for constant instruction fields, decoding of the emitted code, application to a register file of terms over r0..r7, comparison of normal forms with the terms of specification 5.2'
         '; symbolic evaluation of the interpreter executors on terms')
CLAIM = ('Decides statically that the interpreter decoder conforms to the specification tables for all 256 opcodes and every decoder path: opcode -> instruction by '
         'frequency, operand groups and index moduli, src == dst rules, immediate extension, scratchpad level per Table 5.1.4, branch constant/mask/target construction for '
         'all 16 shifts, last-writer marks exactly as spec 5.4.2, the CFROUND v1/v2 rule, and (known-bits, for every entropy word) the group A / group E bit-level '
         'invariants at load time. The arithmetic performed by each executor and closure of the FP invariants under arithmetic are numeric and not claimed.'
         ' Also decided, as agreement with the decoder: opcode tables and scratchpad mask selection of the x86 / A64 / RV64 emitters, the immediate encodings of the x86 emitter (IMM-ENC), that the A64 immediate helpers leave src + sext(imm32) / sext(imm32) in the destination for every imm32 (A64-IMMHELP, known-bits abstract execution over 529 immediate classes), and that A64 / RV64 ISUB_R do not negate before sign extension.'
         ' The integer register-form instructions are also validated in each JIT back-end against the terms of specification 5.2 (X86-HSEM, A64-HSEM, RV-HSEM), and the RV64 branch forms reach exactly the distances they are selected for (RV-BRANCH-RANGE / -ENC).'
         ' Interpreter executors: the body of every integer executor is evaluated symbolically on terms and must equal the term of specification 5.2 (INT-EXEC: 17 executors, every shift, all three masks), and every floating-point executor applies the operation of 5.3 to the right operands, with the converted scratchpad operand and, for FDIV_M, the mantissa / exponent masks (FP-EXEC, uninterpreted vector operations; the rx_* wrappers of the host configuration are the packed-double intrinsics of the same name). x86 JIT: the memory-form and floating-point handlers are validated on the decoded bytes as well (X86-MEM-HSEM, X86-FP-HSEM).')
LEVEL_NOTE = ('Trusted: clang 14 AST with the build flags; doc/specs.md tables as the oracle; IEEE-754 reasoning that positive normal E operands and A in [1,2^32) '
              'cannot produce NaN/subnormals is the design document argument, not re-derived.')
EXPLANATION = ('Decoder blocks of BytecodeMachine::compileInstruction enumerated path by path (46 paths), each compared with the row of spec Tables 5.2.1/5.3.1/5.4.1/5.5.1; '
               'executors read for field use and write sets; known-bits evaluation of CBRANCH constants for 16 shifts and of getSmallPositiveFloatBits/getFloatMask.'
               ' TAB-OPC x3, MEM-JITMASK x3, IMM-ENC, IMM-NEG, A64-IMMHELP.'
         ' X86-HSEM, A64-HSEM, RV-HSEM, RV-BRANCH-RANGE/ENC.'
         ' INT-EXEC, FP-EXEC, X86-MEM-HSEM, X86-FP-HSEM.')

EXPLANATION += ' A64-MEM-HSEM, RV-MEM-HSEM.'

EXPLANATION += ' A64-FP-HSEM.'

EXPLANATION += ' RV-FP-HSEM.'

EXPLANATION += ' A64-CFR-BITS, RV-CFR-BITS.'

EXPLANATION += ' PORT-ENDIAN-PAIR.'
CLAIM += (' On a big-endian target a member that is read through a little-endian helper (the E-register masks) is written through the matching store helper (PORT-ENDIAN-PAIR).')


def run(ctx, R):
    F = astq.Facts(ctx, 'K0')
    R.saw(config='K0')
    decode.rule_tab_opc(ctx, R, F)
    decode.rule_defuse(ctx, R, F)
    decode.rule_operands(ctx, R, F)
    decode.rule_lw(ctx, R, F)
    decode.rule_cbr(ctx, R, F)
    decode.rule_cfround(ctx, R, F)
    decode.rule_fpbits(ctx, R, F)
    jit.rule_tab_opc(ctx, R, 'x86', F)
    jit.rule_tab_opc(ctx, R, 'a64', F)
    jit.rule_tab_opc(ctx, R, 'rv64', F)
    jit.rule_jitmask_x86(ctx, R)
    jitcross.rule_jitmask_a64(ctx, R, F)
    rv64.rule_jitmask(ctx, R, F)
    jitcross.rule_immneg(ctx, R, 'a64')
    jitcross.rule_immneg(ctx, R, 'rv64')
    a64sem.rule_immhelp(ctx, R)
    sshash.rule_immenc(ctx, R, F)
    jit.rule_tab_opc(ctx, R, 'rvv', F)
    jitcross.rule_immneg(ctx, R, 'rvv')
    rv64.rule_branch_forms(ctx, R)   # CBRANCH target: each emitted branch form reaches exactly the distances it is chosen for
    x86hsem.rule_hsem(ctx, R)
    a64hsem.rule_hsem(ctx, R)
    rvhsem.rule_hsem(ctx, R)
    interpsem.rule_int_exec(ctx, R, F)
    interpsem.rule_fp_exec(ctx, R, astq.Facts(ctx, 'K1'), F)
    x86hsem.rule_mem_hsem(ctx, R)
    x86hsem.rule_fp_hsem(ctx, R)
    rvhsem.rule_mem_hsem(ctx, R, 'rvv')
    rvhsem.rule_mem_hsem(ctx, R)
    a64hsem.rule_mem_hsem(ctx, R)
    a64fp.rule_fp_hsem(ctx, R)
    rvfp.rule_fp_hsem(ctx, R)
    cfrcross.rule_a64(ctx, R)
    cfrcross.rule_rv(ctx, R)
    portable.rule_endian_pair(ctx, R)
