"""[RV-FP-HSEM] the floating-point handlers of the scalar RV64 back-end, validated at word level.

The RV64 back-end keeps every 128-bit floating-point register of the VM in two scalar f registers (low lane, high lane).  The words a handler emits are executed
on a machine whose f registers hold terms; fadd.d / fsub.d / fmul.d / fdiv.d / fsqrt.d are uninterpreted operations on those terms, fmv between the register
files moves the term, the integer side is the machine of RV-MEM-HSEM.  Which f register is which lane is taken from regLoF / regHiF / regLoE / regHiE /
regLoA / regHiA of the back-end and cross-checked with the hand-written loop head (scratchpad word k -> lane k) and prologue (group A).  Expected: specification 5.3.
"""
import re

import astq
import rtasm
from core import AnalysisBroken
from domains import KB, KBEval
from report import memoised
from rules import a64hsem as T
from rules import jit, rvhsem as V, x86hsem as X
from rules.a64hsem import add, atom, const, xor
from rules.rvdsread import LoopMachine

FP_HANDLERS = ('FSWAP_R', 'FADD_R', 'FADD_M', 'FSUB_R', 'FSUB_M', 'FSCAL_R', 'FMUL_R', 'FDIV_M', 'FSQRT_R')


def fop(name, a, b=None):
    if b is None:
        return atom(('f' + name, a.canon()))
    if name in ('add', 'mul'):
        a, b = sorted((a, b), key=lambda x: repr(x.canon()))
    return atom(('f' + name, a.canon(), b.canon()))


class FpMachine(LoopMachine):
    def __init__(self, regmap, K, regs):
        LoopMachine.__init__(self, regmap, 0, lambda off: 0)
        self.x = {0: const(0)}
        for i, xr in enumerate(regmap):
            self.x[xr] = atom(('reg', i))
        self.x[regs['spad']] = atom(('spad',))
        self.x[regs['L1']] = const(K['L1'])
        self.x[regs['L2']] = const(K['L2'])
        self.x[regs['L3']] = const(K['L3'])
        self.stores = []

    def fget(self, n):
        return self.f.get(n, atom(('freg', n)))

    def step32(self, w, where):
        opc, rd, f3, rs1, rs2, f7 = w & 0x7f, (w >> 7) & 31, (w >> 12) & 7, (w >> 15) & 31, (w >> 20) & 31, w >> 25
        if opc == 0x53:
            two = {0x01: 'add', 0x05: 'sub', 0x09: 'mul', 0x0d: 'div'}
            if f7 in two:
                self.f[rd] = fop(two[f7], self.fget(rs1), self.fget(rs2))
                return 'f%s.d' % two[f7]
            if f7 == 0x2d and rs2 == 0:
                self.f[rd] = fop('sqrt', self.fget(rs1))
                return 'fsqrt.d'
            if f7 == 0x11 and f3 == 0 and rs1 == rs2:            # fsgnj.d rd, rs, rs = fmv.d
                self.f[rd] = self.fget(rs1)
                return 'fmv.d'
        return LoopMachine.step32(self, w, where)


_prev = T.atom_eval


def _ev(a, regs):
    if a[0] == 'freg':
        return (0x3FF0000000000000 + 0x0123456789ABCDEF * (a[1] + 1)) & ((1 << 64) - 1)
    if a[0] in ('fadd', 'fsub', 'fmul', 'fdiv', 'fsqrt'):
        h = {'fadd': 3, 'fsub': 5, 'fmul': 7, 'fdiv': 11, 'fsqrt': 13}[a[0]]
        v = 0
        for k, t in enumerate(a[1:]):
            v = (v * 0x9E3779B97F4A7C15 + T.term_eval(t, regs) * (h + 2 * k + (k if a[0] in ('fsub', 'fdiv') else 0))) & ((1 << 64) - 1)
        return v
    return _prev(a, regs)


T.atom_eval = _ev


def _lane_fn(F, name):
    fs = [f for f in F.in_file('jit_compiler_rv64.cpp') if f['name'] == name]
    if len(fs) != 1:
        raise AnalysisBroken('RV-FP-HSEM: %s not found' % name)
    out = []
    for i in range(8):
        ev = KBEval(F, {fs[0]['params'][0]['id']: KB.const(32, i)})
        rets = []
        ev._exec(fs[0]['body'], rets)
        v = rets[0].value() if rets else None
        if v is None:
            raise AnalysisBroken('RV-FP-HSEM: %s(%d) is not a constant' % (name, i))
        out.append(v)
    return out


@memoised('RV-FP-HSEM')
def rule_fp_hsem(ctx, R):
    if V.STRICT_FAMILY:
        R.note('rule_fp_hsem skipped: RXVERIF_STRICT_FAMILY=1')
        return
    F, hs = jit.handlers(ctx, 'rv64')
    R.rule('RV-FP-HSEM', 'for the nine floating-point instructions the words the RV64 handler and its address helper emit, interpreted on f registers that hold terms (two scalar registers per VM register), apply the operation of '
           'specification 5.3 to the right registers in both lanes: f[dst] +/- a[src], f[dst] xor the scale mask, e[dst] * a[src], sqrt(e[dst]), the lane swap, and for the memory forms the operands converted from the two sign-extended 32-bit '
           'integers at scratchpad + ((src + sext(imm32)) & mask), for FDIV_M passed through the and-mask and the or-mask of its lane exactly as in the loop head; the lane registers agree with the hand-written loop head and prologue', min_instances=900)
    R.saw(config='K3', unit='src/jit_compiler_rv64.cpp')
    FI = astq.Facts(ctx, 'K0')
    K = {'L1': FI.const('randomx::ScratchpadL1Mask'), 'L2': FI.const('randomx::ScratchpadL2Mask'), 'L3': FI.const('randomx::ScratchpadL3Mask')}
    regs = {'spad': F.const('randomx::SpadReg'), 'L1': F.const('randomx::MaskL1Reg'), 'L2': F.const('randomx::MaskL2Reg'), 'L3': F.const('randomx::MaskL3Reg')}
    if None in K.values() or None in regs.values():
        raise AnalysisBroken('RV-FP-HSEM: mask constants / registers not found')
    from rules.rvdsread import _regmap
    regmap = _regmap(ctx)
    lo = {g: _lane_fn(F, 'regLo' + g) for g in 'FEA'}
    hi = {g: _lane_fn(F, 'regHi' + g) for g in 'FEA'}
    src = 'src/jit_compiler_rv64.cpp'
    # lanes against the hand-written runtime: scratchpad word k of the second line -> f lane k (RV-LOOPLOAD: f_k, e lanes f(8 + k)); group A from the prologue loads
    R.check([lo['F'][j] for j in range(4)] == [2 * j for j in range(4)] and [hi['F'][j] for j in range(4)] == [2 * j + 1 for j in range(4)], 'lanes of f0-f3', src, expected='f(2j), f(2j+1) as the loop head fills them', found=(lo['F'][:4], hi['F'][:4]))
    R.check([lo['E'][j] for j in range(4)] == [8 + 2 * j for j in range(4)] and [hi['E'][j] for j in range(4)] == [9 + 2 * j for j in range(4)], 'lanes of e0-e3', src, expected='f(8+2j), f(9+2j) as the loop head fills them', found=(lo['E'][:4], hi['E'][:4]))
    P = rtasm.Prog(ctx.obj('rv64'), 'rv')
    pa, pb = P.sym('randomx_riscv64_prologue'), P.sym('randomx_riscv64_loop_begin')
    bybase = {}
    for a in P.order:
        if pa <= a < pb and P.ins[a].mnem in ('fld', 'c.fld', 'c.fldsp'):
            mo = re.match(r'^(-?\d+)\((\w+)\)$', P.ins[a].ops[1].strip())
            fr = rtasm.rv_reg(P.ins[a].ops[0])
            if mo and fr and 192 <= int(mo.group(1)) < 256:
                bybase.setdefault(mo.group(2), {})[(int(mo.group(1)) - 192) // 8] = int(fr[1:])
    full = [v for v in bybase.values() if len(v) == 8]
    aload = full[0] if len(full) == 1 else {}
    if len(aload) != 8:
        raise AnalysisBroken('RV-FP-HSEM: the eight group A loads of the prologue were not found (%d)' % len(aload))
    R.check(all(lo['A'][j] == aload[2 * j] and hi['A'][j] == aload[2 * j + 1] for j in range(4)), 'lanes of a0-a3', src, expected='the registers the prologue loads from reg.a: %s' % [aload[k] for k in range(8)], found=(lo['A'][:4], hi['A'][:4]))
    SCALE = 0x80F0000000000000
    n = 0
    scale_regs, and_regs, or_lo, or_hi = set(), set(), set(), set()
    for name in FP_HANDLERS:
        if name not in hs:
            raise AnalysisBroken('RV-FP-HSEM: handler of %s not found' % name)
        h = hs[name].f
        where = '%s:%d' % (h['file'], h['line'])
        R.saw(fn=h['q'])
        for d in range(8):
            for s in range(8):
                for modmem in ((0, 1, 3) if name.endswith('_M') else (0,)):
                    for imm in ((0, 0x7FFFFFF8, 0x80000000, 0xFFFFFFFF, 0x800, 0x7FF) if name.endswith('_M') and (d + s) % 4 == 0 else (0x12345678,)):
                        n += 1
                        fields = {'dst': KB.const(8, d), 'src': KB.const(8, s), 'mod': KB.const(8, modmem)}
                        ov = {'randomx::Instruction::getImm32': KB.const(32, imm), 'randomx::Instruction::getModShift': KB.const(32, 0),
                              'randomx::Instruction::getModMem': KB.const(32, modmem), 'randomx::Instruction::getModCond': KB.const(32, 0)}
                        ex = V.RvExec(F, fields, ov)
                        ex.run(h, [None, None, KB.const(32, 7), KB.const(32, 0)])
                        m = FpMachine(regmap, K, regs)
                        tr, bad = [], None
                        if not ex.words:
                            bad = 'nothing is emitted'
                        for size, w, wh in ex.words:
                            v = w.value()
                            if v is None:
                                raise AnalysisBroken('RV-FP-HSEM: a word emitted at %s is not constant (%s)' % (wh, w.hexpat()))
                            try:
                                tr.append(m.step16(v, wh) if size == 2 else m.step32(v, wh))
                            except V.NotInteger as e:
                                bad = 'after `%s` the handler emits %s (%s)' % (' ; '.join(tr), e, wh)
                                break
                        fd, fs = d % 4, s % 4
                        exp = {}
                        for g in 'FEA':
                            for j in range(4):
                                exp[lo[g][j]] = atom(('freg', lo[g][j]))
                                exp[hi[g][j]] = atom(('freg', hi[g][j]))
                        simm = const(imm | (0xffffffff00000000 if imm >> 31 else 0))
                        addr = add(atom(('spad',)), X.and_(add(atom(('reg', s)), simm), const(K['L1'] if modmem else K['L2'])))
                        cv = [atom(('cvtw', atom(('ld32s', add(addr, const(4 * l)).canon())).canon())) for l in (0, 1)]
                        F_ = lambda g, j, l: atom(('freg', (lo if l == 0 else hi)[g][j]))
                        R_ = lambda g, j, l: (lo if l == 0 else hi)[g][j]
                        if name == 'FSWAP_R':
                            g_, j_ = ('F', d) if d < 4 else ('E', d - 4)
                            exp[R_(g_, j_, 0)], exp[R_(g_, j_, 1)] = F_(g_, j_, 1), F_(g_, j_, 0)
                        for l in (0, 1):
                            if name == 'FADD_R':
                                exp[R_('F', fd, l)] = fop('add', F_('F', fd, l), F_('A', fs, l))
                            elif name == 'FADD_M':
                                exp[R_('F', fd, l)] = fop('add', F_('F', fd, l), cv[l])
                            elif name == 'FSUB_R':
                                exp[R_('F', fd, l)] = fop('sub', F_('F', fd, l), F_('A', fs, l))
                            elif name == 'FSUB_M':
                                exp[R_('F', fd, l)] = fop('sub', F_('F', fd, l), cv[l])
                            elif name == 'FSCAL_R':
                                got = m.fget(R_('F', fd, l))
                                at = V.single_atom(got)
                                if at is not None and at[0] == 'xor':
                                    ps = [V.lin_of(at[1]), V.lin_of(at[2])]
                                    oth = [p for p in ps if p != F_('F', fd, l)]
                                    oa = V.single_atom(oth[0]) if len(oth) == 1 else None
                                    if oa is not None and oa[0] == 'undef':
                                        scale_regs.add(oa[1])
                                        exp[R_('F', fd, l)] = got
                                        continue
                                exp[R_('F', fd, l)] = xor(F_('F', fd, l), atom(('undef', 'scale mask register')))
                            elif name == 'FMUL_R':
                                exp[R_('E', fd, l)] = fop('mul', F_('E', fd, l), F_('A', fs, l))
                            elif name == 'FDIV_M':
                                got = m.fget(R_('E', fd, l))
                                at = V.single_atom(got)
                                ok_shape = False
                                if at is not None and at[0] == 'fdiv' and V.lin_of(at[1]) == F_('E', fd, l):
                                    dv = V.single_atom(V.lin_of(at[2]))
                                    if dv is not None and dv[0] == 'or':
                                        parts = [V.lin_of(dv[1]), V.lin_of(dv[2])]
                                        for a_, b_ in (parts, parts[::-1]):
                                            aa = V.single_atom(a_)
                                            ba = V.single_atom(b_)
                                            if aa is not None and aa[0] == 'and' and ba is not None and ba[0] == 'undef':
                                                q = [V.lin_of(aa[1]), V.lin_of(aa[2])]
                                                if cv[l] in q:
                                                    om = V.single_atom([x for x in q if x != cv[l]][0]) if len([x for x in q if x != cv[l]]) == 1 else None
                                                    if om is not None and om[0] == 'undef':
                                                        and_regs.add(om[1])
                                                        (or_lo if l == 0 else or_hi).add(ba[1])
                                                        ok_shape = True
                                exp[R_('E', fd, l)] = got if ok_shape else fop('div', F_('E', fd, l), atom(('undef', '(cvt & and-mask) | or-mask of the lane')))
                            elif name == 'FSQRT_R':
                                exp[R_('E', fd, l)] = fop('sqrt', F_('E', fd, l))
                        if bad is None:
                            for fr in sorted(exp):
                                got = m.fget(fr)
                                if got != exp[fr]:
                                    from rules import bitlin
                                    bad = 'f%d = %s after `%s` (specification: %s)' % (fr, T.term_show(got, None), ' ; '.join(tr), T.term_show(exp[fr], None))
                                    break
                        if bad is None:
                            for i in range(8):
                                if m.get(regmap[i]) != atom(('reg', i)):
                                    bad = 'integer register r%d changed by a floating-point instruction (`%s`)' % (i, ' ; '.join(tr))
                                    break
                        if bad is None and m.stores:
                            bad = 'a store is emitted'
                        inst = '%s dst=%d src=%d%s' % (name, d, s, ' mod.mem=%d imm32=%#x' % (modmem, imm) if name.endswith('_M') else '')
                        if bad:
                            R.violation(inst, where, expected='as in specification 5.3', found=bad)
                        else:
                            R.ok(inst, where)
    # the mask registers: the scale mask is the register the prologue loads the constant 0x80F0000000000000 into; the E masks are the ones of the loop head
    f0 = rtasm.Frame(P)
    f0.run(pa, stop={pb})
    o = ctx.obj('rv64')
    holders = sorted(int(r[1:]) for r, v in f0.reg.items() if r.startswith('x') and v[0] == 'mem' and o.u64(v[1]) == SCALE)
    R.check(sorted(scale_regs) == holders and len(holders) == 1, 'FSCAL_R: the scale-mask register', src, expected='the register the prologue loads %#x into: %s' % (SCALE, ['x%d' % x for x in holders]), found=['x%d' % x for x in sorted(scale_regs)])
    head = [P.ins[a] for a in P.order if pb <= a < P.sym('randomx_riscv64_data_read')]
    h_and = {int(rtasm.rv_reg(i.ops[-1])[1:]) for i in head if i.mnem in ('and', 'c.and') and rtasm.rv_reg(i.ops[-1])}
    h_or = sorted({int(rtasm.rv_reg(i.ops[-1])[1:]) for i in head if i.mnem in ('or', 'c.or') and rtasm.rv_reg(i.ops[-1])})
    R.check(and_regs == h_and and len(h_and) == 1 and sorted(or_lo | or_hi) == h_or and len(or_lo) == 1 and len(or_hi) == 1 and or_lo != or_hi, 'FDIV_M: the E-register masks', src,
            expected='and-mask x%s, or-masks %s (low lane / high lane) as in the loop head' % (sorted(h_and), h_or), found='and %s, or low %s, or high %s' % (sorted(and_regs), sorted(or_lo), sorted(or_hi)))
    if n < 900:
        raise AnalysisBroken('RV-FP-HSEM: only %d cases evaluated' % n)
