"""Back-end specific rules for the A64 (K2) and RV64 (K3) JIT compilers: CBR-BITS, CBR-TARGET, LW-POS, V2-SYM,
MEM-JITMASK, IMM-NEG, SS-EXH, CG-SIZE, WX (per arch), A64-EMASK."""
import re

import astq
import decoder
import domains
import jitfacts
from astq import CFG, calls, loc, show, showv, strip_all, val, walk
from core import AnalysisBroken
from domains import KB, KBEval
from rules import decode, jit
from rules.driver import loop_trip, ref_id
from rules.portable import rule_typecheck   # noqa: F401  (re-exported for C19/C20)


def a64_logical_imm64(insn):
    """value of the 64-bit logical immediate (N:immr:imms) of an A64 AND/ANDS/TST immediate instruction with N = 1"""
    n = (insn >> 22) & 1
    immr = (insn >> 16) & 0x3f
    imms = (insn >> 10) & 0x3f
    if n != 1:
        return None
    ones = imms + 1
    if ones >= 64:
        return None
    m = (1 << ones) - 1
    r = immr
    return ((m >> r) | (m << (64 - r))) & ((1 << 64) - 1)


def a64_logical_imm32(insn):
    """value of the 32-bit logical immediate (sf = 0, N = 0, element size 32) of an A64 AND immediate"""
    n = (insn >> 22) & 1
    immr = (insn >> 16) & 0x3f
    imms = (insn >> 10) & 0x3f
    if n != 0 or imms & 0x20:
        return None
    ones = (imms & 0x1f) + 1
    m = (1 << ones) - 1
    r = immr & 0x1f
    return ((m >> r) | (m << (32 - r))) & 0xffffffff


def rule_typecheck_arch(ctx, R, config, arch):
    R.rule('PORT-TYPECHECK', 'the %s back-end and every unit that is compiled with it parse and type-check for the target (nothing else checks these files on an x86-64 host)' % arch, min_instances=20)
    st = ctx.ast_status(config)
    for rel in sorted(st):
        try:
            facts = ctx.ast(rel, config)
        except AnalysisBroken as e:
            R.violation('%s [%s]' % (rel, config), rel, expected='parses', found=str(e)[-300:])
            continue
        R.saw(unit=rel, config=config)
        R.check(st[rel]['rc'] == 0 and facts['errors'] == 0, '%s [%s]' % (rel, config), rel, expected='0 errors', found='%s errors: %s' % (facts['errors'], st[rel]['stderr'][-400:]))
    F = astq.Facts(ctx, config)
    cls = jit.ARCH[arch]['cls']
    R.check(any(r['q'] == cls for r in F.records(re.escape(cls) + '$')), 'configuration %s selects %s' % (config, cls), 'src/common.hpp', expected='JitCompiler = ' + cls, found=[r['q'] for r in F.records('JitCompiler')][:4])
    return F


# ---------------------------------------------------------------------------------------------
def rule_cbr_a64(ctx, R, FI):
    F, hs = jit.handlers(ctx, 'a64')
    h = hs['CBRANCH']
    f = h.f
    where = '%s:%d' % (f['file'], f['line'])
    R.rule('CBR-BITS', 'A64 h_CBRANCH: for each of the 16 shifts the 32-bit addend has bit b set / bit b-1 clear, and the decoded 64-bit logical immediate of the emitted tst is ConditionMask << b', min_instances=32)
    cm = FI.const('randomx::ConditionMask')
    co = FI.const('randomx::ConditionOffset')
    add = [c for c in calls(f['body']) if c.get('name') == 'emitAddImmediate']
    e32 = [c for c in calls(f['body']) if c.get('name') == 'emit32']
    if len(add) != 1 or len(e32) != 2:
        raise AnalysisBroken('A64 h_CBRANCH: expected emitAddImmediate + 2 emit32 (tst, b.eq), found %d / %d' % (len(add), len(e32)))
    dst_local = None
    for x in walk(f['body']):
        if x['k'] == 'Decl':
            for d in x['d']:
                if d.get('name') == 'dst':
                    dst_local = d['id']
    for mc in range(16):
        ev = KBEval(F, {}, overrides={'randomx::Instruction::getModCond': KB.const(32, mc)})
        if dst_local:
            ev.env[dst_local] = KB.const(32, 0)      # register number: irrelevant for the immediate fields (bits 5-9)
        try:
            ev._exec(f['body'], [])
        except AnalysisBroken:
            pass
        if dst_local:
            ev.env[dst_local] = KB.const(32, 0)
        b = mc + co
        imm = ev.ev(add[0]['a'][2])
        R.check(imm.bit(b) == 1 and imm.bit(b - 1) == 0, 'a64 addend bits, shift %d' % b, loc(add[0], f), expected='bit %d = 1, bit %d = 0' % (b, b - 1), found=repr(imm)[-(b + 4):])
        tst = ev.ev(e32[0]['a'][0])
        tv = tst.value()
        mask = a64_logical_imm64(tv) if tv is not None else None
        is_tst = tv is not None and (tv & 0xff80001f) == 0xf200001f
        R.check(is_tst and mask == cm << b, 'a64 tst mask, shift %d' % b, loc(e32[0], f), expected='tst xN, #%#x' % (cm << b), found='insn %s -> mask %s' % (hex(tv) if tv is not None else tst.hexpat(), hex(mask) if mask is not None else None))
    # the addend is sign-extended by emitAddImmediate/emitMovImmediate (smov / movn paths) exactly when bit 31 is set
    mv = F.func('randomx::JitCompilerA64::emitMovImmediate')
    neg = [x for x in walk(mv['body']) if x['k'] == 'If' and 'static_cast' not in show(x['c']) and '< 0' in showv(x['c'])]
    R.check(len(neg) == 2, 'a64 emitMovImmediate distinguishes negative 32-bit immediates (sign extension)', '%s:%d' % (mv['file'], mv['line']), expected='two tests of (int32_t)imm < 0 (literal and movn/movz paths)', found=len(neg), rule='CBR-BITS')
    R.rule('CBR-TARGET', 'A64 h_CBRANCH: the register added to and tested is the register whose last-writer offset is looked up; the branch goes to that recorded offset; all 8 entries are set to the position after the branch; '
           'the table is reset to the start of the program before every compilation', min_instances=4)
    with astq.renaming({h.ip: 'IN'}), astq.nocasts():
        d = {dd['name']: showv(dd['init']) for x in walk(f['body']) if x['k'] == 'Decl' for dd in x['d'] if 'init' in dd}
        addargs = [showv(a) for a in add[0]['a'][:2]]
    R.check(d.get('dst') == 'randomx::IntRegMap[IN.dst]' and addargs == ['dst', 'dst'] and d.get('offset') == 'this->reg_changed_offset[IN.dst]', 'a64 branch register', where,
            expected='dst = IntRegMap[instr.dst]; add dst; offset = reg_changed_offset[instr.dst]', found=(d.get('dst'), addargs, d.get('offset')))
    R.check(h.paths[0]['mark_all'] == FI.const('randomx::RegistersCount'), 'a64 marks all after branch', where, expected=8, found=h.paths[0]['mark_all'])
    for gname in ('generateProgram', 'generateProgramLight'):
        g = F.func('randomx::JitCompilerA64::' + gname)
        loops = [x for x in walk(g['body']) if x['k'] == 'For']
        reset = [l for l in loops if any(x['k'] == 'Assign' and 'reg_changed_offset' in show(x['l']) for x in walk(l['b']))]
        main = [l for l in loops if any('engine' in show(c.get('callee')) for c in calls(l['b']) if 'callee' in c)]
        okr = len(reset) == 1 and len(main) == 1 and reset[0].get('ln', 0) < main[0].get('ln', 0) and loop_trip(reset[0]) == 8
        R.check(okr, 'a64 %s resets the table before emitting' % gname, '%s:%d' % (g['file'], g['line']), expected='reg_changed_offset[0..7] = codePos before the instruction loop', found='%d reset loops' % len(reset))
        norm = [x for x in walk(main[0]['b']) if x['k'] == 'CAssign' and x['op'] == '%=' and val(x['r']) == 8] if main else []
        R.check(len(norm) == 2, 'a64 %s reduces src/dst mod 8' % gname, '%s:%d' % (g['file'], g['line']), expected='instr.src %= 8; instr.dst %= 8', found=len(norm))


def rule_lwpos_a64(ctx, R):
    F, hs = jit.handlers(ctx, 'a64')
    R.rule('LW-POS', 'A64 handlers record reg_changed_offset[reg] = k only after the last instruction word of the handler has been emitted (a branch target inside the instruction\'s own code would re-execute part of it)', min_instances=17)
    n = 0
    for name, h in sorted(hs.items()):
        f = h.f
        for p in decoder.paths(f['body']):
            last_emit = -1
            marks = []
            for idx, e in enumerate(p.events):
                node = e[1] if isinstance(e, tuple) else e
                if isinstance(e, tuple) and e[0] == 'loop':
                    if any(x['k'] == 'Assign' and 'reg_changed_offset' in show(x['l']) for x in walk(node['b'])):
                        marks.append(idx)
                    if any(re.match(r'^emit', c.get('name', '')) for c in calls(node['b'])):
                        last_emit = idx
                    continue
                if any(re.match(r'^emit', c.get('name', '')) for c in calls(node)):
                    last_emit = idx
                for x in walk(node):
                    if x['k'] == 'Assign' and 'reg_changed_offset' in show(x['l']):
                        marks.append(idx)
            if marks:
                n += 1
                R.check(min(marks) > last_emit, 'a64 %s [%s]' % (name, ' && '.join(('' if t else '!') + show(c)[:30] for c, t in p.conds) or 'always'), '%s:%d' % (f['file'], f['line']),
                        expected='mark after the last emit', found='mark at event %d, last emit at event %d' % (min(marks), last_emit))
                # the recorded value is the running position
                for x in walk(f['body']):
                    if x['k'] == 'Assign' and 'reg_changed_offset' in show(x['l']) and show(x['r']) not in ('k', 'codePos'):
                        R.violation('a64 %s mark value' % name, loc(x, f), expected='k (current code position)', found=show(x['r']))
    if n < 17:
        raise AnalysisBroken('LW-POS: only %d marking paths in the A64 handlers' % n)


def rule_lwexec_a64(ctx, R):
    """[LW-POS-EXEC] the value of every mark, decided by executing the handler with a concrete code position"""
    from domains import KB
    from rules.a64sem import Exec
    F, hs = jit.handlers(ctx, 'a64')
    R.rule('LW-POS-EXEC', 'A64: every value a handler stores into reg_changed_offset - for the destination, for both registers of a swap, for all eight registers after a branch, directly or through a helper - is the code position '
           'reached after the last word the handler emitted (a smaller value makes the next CBRANCH on that register jump into or before the instruction: part of it, or a whole earlier branch, is executed again); '
           'decided by known-bits execution of the handler at a concrete position for every instruction', min_instances=20)
    cls = 'randomx::JitCompilerA64'
    n = 0
    skipped = set()
    for name, h in sorted(hs.items()):
        f = h.f
        touches = any(x['k'] == 'Mem' and x.get('m') == 'reg_changed_offset' for x in walk(f['body'])) or \
            any((c.get('fn') or '').startswith(cls + '::') and F.has_func(c['fn']) and any(y['k'] == 'Mem' and y.get('m') == 'reg_changed_offset' for y in walk(F.func(c['fn'])['body'])) for c in calls(f['body']))
        if not touches:
            continue
        ip = f['params'][0]
        for d, s_, imm, mod in ((3, 1, 0x100, 0), (5, 5, 0x7FFFFFF8, 1), (0, 7, 0xFFFFFFFF, 0xE3)):
            ex = Exec(F, cls, None, {}, 64)
            pname = ip['name']
            env0 = {'%s.dst' % pname: KB.const(8, d), '%s.src' % pname: KB.const(8, s_), '%s.mod' % pname: KB.const(8, mod), 'this->flags': KB.const(32, 0)}
            for i in range(8):
                env0['this->reg_changed_offset[%d]' % i] = KB.const(32, 0x800)
            ov = {'randomx::Instruction::getImm32': KB.const(32, imm), 'randomx::Instruction::getModShift': KB.const(32, (mod >> 2) & 3),
                  'randomx::Instruction::getModMem': KB.const(32, mod & 3), 'randomx::Instruction::getModCond': KB.const(32, mod >> 4)}
            P0 = 0x1000
            try:
                ex.run_with(f, [None, KB.const(32, P0)], env0, ov)
            except AnalysisBroken as e:
                skipped.add('%s (%s)' % (name, str(e)[:70]))
                break
            fin = ex.final_env.get(f['params'][1]['id'])
            end = fin.value() if fin is not None else None
            if end is None or end != P0 + 4 * len(ex.words):
                R.violation('a64 %s dst=%d src=%d: position after the handler' % (name, d, s_), '%s:%d' % (f['file'], f['line']), expected='%#x (%d words emitted)' % (P0 + 4 * len(ex.words), len(ex.words)), found=hex(end) if end is not None else 'not constant')
                continue
            marks = [(k_, v_.value() if hasattr(v_, 'value') else None) for k_, v_ in ex.final_env.items() if isinstance(k_, str) and 'reg_changed_offset[' in k_ and not re.match(r'^this->reg_changed_offset\[\d\]$', k_)]
            marks += [('all registers (%s)' % wh, v_) for v_, wh in getattr(ex, 'mark_all', [])]
            if not marks:
                continue
            n += 1
            bad = [(k_, v_) for k_, v_ in marks if v_ != end]
            R.check(not bad, 'a64 %s dst=%d src=%d imm32=%#x' % (name, d, s_, imm), '%s:%d' % (f['file'], f['line']), expected='every mark = %#x, the position after the %d emitted words' % (end, len(ex.words)),
                    found='; '.join('%s = %s' % (k_, hex(v_) if v_ is not None else 'not constant') for k_, v_ in bad) or 'all marks at the end')
    if skipped:
        R.note('LW-POS-EXEC does not execute: ' + '; '.join(sorted(skipped)) + ' (their marks are LW-VALUE / RCP-NOOP obligations)')
    if n < 20:
        raise AnalysisBroken('LW-POS-EXEC: only %d marking executions' % n)


def rule_v2sym_a64(ctx, R):
    F, hs = jit.handlers(ctx, 'a64')
    R.rule('V2-SYM', 'the A64 back-end patches a persistent code buffer in place: every v1/v2 gate in generateProgram / generateProgramLight has both arms and both arms write the same patch location (otherwise code of the other version survives a v2 -> v1 switch)', min_instances=4)
    n = 0
    for gname in ('generateProgram', 'generateProgramLight'):
        g = F.func('randomx::JitCompilerA64::' + gname)
        for x in walk(g['body']):
            if x['k'] == 'If' and 'RANDOMX_FLAG_V2' in show(x['c']):
                n += 1

                def dests(arm):
                    out = []
                    if arm is None:
                        return out
                    with astq.nocasts():
                        for c in calls(arm):
                            if c.get('name') == 'memcpy':
                                d0 = strip_all(c['a'][0])
                                out.append(resolve_local(arm, showv(d0)))
                            elif c.get('name') == 'emit32':
                                out.append('emit32@' + showv(c['a'][2]))
                    return out
                t, e = dests(x['t']), dests(x.get('e'))
                prim_t = [d for d in t if 'aes_lut_pointers' not in d and 'offset' not in d]
                prim_e = [d for d in e]
                ok = x.get('e') is not None and bool(prim_e) and set(prim_e) <= set(t) and all(d in prim_e for d in prim_t[:1])
                R.check(ok, 'a64 %s: v1/v2 gate at line %s' % (gname, x.get('ln')), loc(x, g), expected='both arms patch the same location', found='v2 arm writes %s; v1 arm writes %s' % (t, e if x.get('e') is not None else 'NOTHING (no else)'))
    # a patch whose *source* (or value) is chosen by `flags & V2 ? a : b` writes the same location in both versions by construction
    for gname in ('generateProgram', 'generateProgramLight'):
        g = F.func('randomx::JitCompilerA64::' + gname)
        for x in walk(g['body']):
            if x['k'] == 'Cond' and 'RANDOMX_FLAG_V2' in show(x['c']):
                n += 1
                R.ok('a64 %s: v1/v2 selection by conditional expression at line %s' % (gname, x.get('ln')), loc(x, g), detail='one patch site, value chosen per version')
    if n < 4:
        raise AnalysisBroken('V2-SYM: only %d v1/v2 gates found in the A64 generators' % n)


def resolve_local(scope, s):
    """replace a local `dst` defined in the same block by its initialiser text"""
    for x in walk(scope):
        if x['k'] == 'Decl':
            for d in x['d']:
                if 'init' in d and re.search(r'\b%s\b' % re.escape(d['name']), s):
                    with astq.nocasts():
                        s = re.sub(r'\b%s\b' % re.escape(d['name']), showv(d['init']), s)
    return s


def rule_jitmask_a64(ctx, R, FI):
    F, hs = jit.handlers(ctx, 'a64')
    mk = decode.masks(FI)
    R.rule('MEM-JITMASK', 'A64 memory operands: the displacement is pre-masked and the address and-ed with the level the decoder uses under the same conditions (mod.mem ? L1 : L2; src == dst -> L3 immediate; store: mod.cond < 14 ? (mod.mem ? L1 : L2) : L3); '
           'the logical-immediate encodings decode to the C++ masks', min_instances=10)
    cfgsz = {k: int(FI.macro('RANDOMX_SCRATCHPAD_' + k)['body']) for k in ('L1', 'L2', 'L3')}

    def and_levels(f):
        out = {}
        for x in walk(f['body']):
            if x['k'] == 'Decl':
                for d in x['d']:
                    m = re.match(r'^andInstrL(\d)$', d.get('name', ''))
                    if m and val(d.get('init')) is not None:
                        out['L' + m.group(1)] = a64_logical_imm64(val(d['init']))
        return out
    for q in ('randomx::JitCompilerA64::emitMemLoad<20U>', 'randomx::JitCompilerA64::emitMemLoadFP<28U>', 'randomx::JitCompilerA64::h_ISTORE'):
        f = F.func(q)
        R.saw(fn=q, unit=f['_unit'], config='K2')
        lv = and_levels(f)
        for k_, v_ in sorted(lv.items()):
            R.check(v_ == mk[k_], 'a64 %s and-immediate %s' % (q.split('::')[-1], k_), '%s:%d' % (f['file'], f['line']), expected=hex(mk[k_]), found=hex(v_) if v_ is not None else None)
        with astq.nocasts():
            pre = [showv(x) for x in walk(f['body']) if x['k'] == 'CAssign' and x['op'] == '&=' and show(x['l']) == 'imm']
            sel = [showv(c['a'][0]) for c in calls(f['body']) if c.get('name') == 'emit32' and 'andInstr' in show(c['a'][0])]
        name = q.split('::')[-1]
        if name.startswith('emitMemLoad'):
            exp_pre = ['(imm &= (instr.getModMem() ? %d : %d))' % (cfgsz['L1'] - 1, cfgsz['L2'] - 1)]
            R.eq('a64 %s displacement pre-mask' % name, '%s:%d' % (f['file'], f['line']), exp_pre, pre)
            R.eq('a64 %s level selection' % name, '%s:%d' % (f['file'], f['line']), ['mem?L1:L2'], sel_levels(f, mk))
        else:
            exp_pre = ['(imm &= (instr.getModMem() ? %d : %d))' % (cfgsz['L1'] - 1, cfgsz['L2'] - 1), '(imm &= %d)' % (cfgsz['L3'] - 1)]
            R.eq('a64 ISTORE displacement pre-mask', '%s:%d' % (f['file'], f['line']), exp_pre, pre)
            R.eq('a64 ISTORE level selection', '%s:%d' % (f['file'], f['line']), ['cond<14?(mem?L1:L2):L3'], sel_levels(f, mk))
            ifs = [x for x in walk(f['body']) if x['k'] == 'If']
            with astq.nocasts():
                R.check(len(ifs) == 1 and showv(ifs[0]['c']) == '(instr.getModCond() < 14)', 'a64 ISTORE L3 condition', '%s:%d' % (f['file'], f['line']), expected='mod.cond < 14', found=[showv(i['c']) for i in ifs])
    f = F.func('randomx::JitCompilerA64::emitMemLoad<20U>')
    with astq.nocasts():
        l3 = [showv(x) for x in walk(f['body']) if x['k'] == 'Assign' and show(x['l']) == 'imm']
    R.eq('a64 emitMemLoad src == dst address', '%s:%d' % (f['file'], f['line']), ['(imm = ((imm & %d) >> 3))' % mk['L3']], l3)
    # loop masks in the generators: and wN, wM, #ScratchpadL3Mask64 and the dataset line mask
    for gname in ('generateProgram', 'generateProgramLight'):
        g = F.func('randomx::JitCompilerA64::' + gname)
        vals = [val(c['a'][0]) for c in calls(g['body']) if c.get('name') == 'emit32' and val(c['a'][0]) is not None and (val(c['a'][0]) & 0xffc00000) == 0x12000000]
        dec = sorted({a64_logical_imm32(v) for v in vals})
        exp = sorted({mk['L3_64'], FI.const('randomx::CacheLineAlignMask')})
        R.check(set(exp) <= set(dec) and all(d in exp for d in dec), 'a64 %s loop masks' % gname, '%s:%d' % (g['file'], g['line']), expected=[hex(x) for x in exp], found=[hex(x) if x is not None else None for x in dec])


def sel_levels(f, mk):
    """symbolic form of the and-instruction selection: decoded logical immediates mapped back to level names"""
    inv = {mk['L1']: 'L1', mk['L2']: 'L2', mk['L3']: 'L3'}

    def lvl(n):
        n = strip_all(n)
        v = val(n)
        if v is not None:
            return inv.get(a64_logical_imm64(v), 'imm %#x' % v)
        if n['k'] == 'Cond':
            c = strip_all(n['c'])
            while c['k'] == 'Cast':
                c = strip_all(c['e'])
            cs = 'mem' if c['k'] == 'Call' and c.get('name') == 'getModMem' else ('cond<%s' % val(c['r']) if c['k'] == 'Bin' and c['op'] == '<' and strip_all(c['l']).get('name') == 'getModCond' else show(c))
            t, f_ = lvl(n['t']), lvl(n['f'])
            t = '(%s)' % t if '?' in t else t
            return '%s?%s:%s' % (cs, t, f_)
        return show(n)
    out = []
    for c in calls(f['body']):
        if c.get('name') == 'emit32':
            a0 = strip_all(c['a'][0])
            if a0['k'] == 'Cond':
                out.append(lvl(a0))
    return out


def rule_immneg(ctx, R, arch):
    F, hs = jit.handlers(ctx, arch)
    R.rule('IMM-NEG', 'ISUB_R with src == dst subtracts the *sign-extended* immediate: the handler must not negate the 32-bit immediate before it is sign-extended (-(imm32) sign-extended differs from -(sign-extended imm32) at imm32 = 0x80000000)', min_instances=1)
    h = hs['ISUB_R']
    f = h.f
    neg = []
    for x in walk(f['body']):
        if x['k'] == 'Un' and x['op'] == '-':
            e = strip_all(x['e'])
            while e['k'] == 'Cast':
                e = strip_all(e['e'])
            from_imm = any(c.get('name') == 'getImm32' for c in calls(x['e'])) or h.desc(e) == 'imm32'
            if from_imm:
                w = domains.type_info(x.get('ty'))
                neg.append((x, w))
    bad = [x for x, w in neg if w is not None and w[0] == 32]
    R.check(not bad, '%s ISUB_R src == dst immediate' % arch, loc(bad[0], f) if bad else '%s:%d' % (f['file'], f['line']), expected='subtract the sign-extended immediate (no 32-bit negation before sign extension)',
            found='32-bit negation %s: wrong result for imm32 = 0x80000000 (adds -2^31, the interpreter adds +2^31)' % show(bad[0]) if bad else 'no 32-bit negation')


def rule_ssexh(ctx, R, arch, FI):
    from rules.sshash import ss_types, switch_cases
    F, hs = jit.handlers(ctx, arch)
    R.rule('SS-EXH', 'the %s SuperscalarHash emitter has an executing case for each of the 14 instruction kinds' % arch, min_instances=14)
    types = ss_types(FI)
    by_val = {v: k for k, v in types.items()}
    A = jit.ARCH[arch]
    cands = [f for f in F.all_funcs() if f.get('body') and f['file'].endswith(A['unit'].split('/')[-1]) and any(x['k'] == 'Switch' for x in walk(f['body']))
             and any(x['k'] == 'Case' and by_val.get(val(x['lhs'])) == 'IMUL_RCP' and 'SuperscalarInstructionType' in (strip_all(x['lhs']).get('ty') or show(x['lhs'])) for x in walk(f['body']))]
    cands = [f for f in cands if 'uperscalar' in f['q']]
    if not cands:
        raise AnalysisBroken('%s: SuperscalarHash emitter switch not found' % arch)
    f = cands[0]
    cases = switch_cases(FI, f, by_val)
    for t in sorted(types, key=lambda k: types[k]):
        body = cases.get(t)
        ok = body is not None and not any(strip_all(s)['k'] == 'Call' and strip_all(s).get('name') == '__builtin_unreachable' for s in body) and len([s for s in body if s['k'] != 'Break']) > 0
        R.check(ok, '%s %s' % (arch, t), '%s:%d' % (f['file'], f['line']), expected='executing case', found='missing / unreachable' if not ok else 'present')


def rule_cgsize_a64(ctx, R, FI):
    F, hs = jit.handlers(ctx, 'a64')
    R.rule('CG-SIZE-A64', 'per instruction the A64 back-end emits at most (reserve / RANDOMX_PROGRAM_MAX_SIZE) bytes of code plus literals, where the reserve is the space the hand-written template leaves between the start of the '
           'instruction area and the literal pool (code grows up, literals grow down)', min_instances=30)
    o = ctx.obj('a64')
    pmax = int(FI.macro('RANDOMX_PROGRAM_MAX_SIZE')['body']) if FI.macro('RANDOMX_PROGRAM_MAX_SIZE')['body'].isdigit() else 384
    a = o.sym('randomx_program_aarch64_vm_instructions')
    b = o.sym('randomx_program_aarch64_imul_rcp_literals_end')
    reserve = b - a
    per = reserve // pmax
    R.extra['a64_reserve'] = dict(reserve=reserve, per_instruction=per)
    memo = {}

    def size(fq, depth=0):
        if fq in memo:
            return memo[fq]
        if depth > 6:
            raise AnalysisBroken('CG-SIZE-A64: recursion')
        f = F.func(fq)
        best = 0
        for p in decoder.paths(f['body']):
            tot = 0
            for e in p.events:
                node = e[1] if isinstance(e, tuple) else e
                if isinstance(e, tuple) and e[0] == 'loop':
                    if any(re.match(r'^emit', c.get('name', '')) for c in calls(node['b'])):
                        raise AnalysisBroken('CG-SIZE-A64: emitting loop in %s' % fq)
                    continue
                for c in calls(node):
                    nm = c.get('name', '')
                    if nm == 'emit32':
                        tot += 4
                    elif nm == 'emit64':
                        tot += 8
                    elif c.get('fn') and c['fn'].startswith('randomx::JitCompilerA64::') and F.has_func(c['fn']) and nm not in ('emit32', 'emit64'):
                        tot += size(c['fn'], depth + 1)
            best = max(best, tot)
        memo[fq] = best
        return best
    lit = {'IMUL_RCP': 8}
    worst = 0
    for name, h in sorted(hs.items()):
        s_ = size(h.f['q'])
        # 32-bit literals live in a separate fixed table (64 entries); 64-bit reciprocals take 8 bytes of the shared reserve
        tot = s_ + lit.get(name, 0)
        worst = max(worst, tot)
        R.check(tot <= per, 'a64 %s' % name, '%s:%d' % (h.f['file'], h.f['line']), expected='<= %d bytes (reserve %d / %d instructions)' % (per, reserve, pmax), found='%d code + %d literal' % (s_, lit.get(name, 0)))
    R.extra['a64_worst_instruction_bytes'] = worst
    # the 32-bit literal table: at most 64 entries are written
    mv = F.func('randomx::JitCompilerA64::emitMovImmediate')
    with astq.nocasts():
        guards = [showv(x['c']) for x in walk(mv['body']) if x['k'] == 'If' and 'num32bitLiterals' in show(x['c'])]
    R.check(guards == ['(this->num32bitLiterals < 64)'], 'a64 32-bit literal table bound', '%s:%d' % (mv['file'], mv['line']), expected='writes guarded by num32bitLiterals < 64', found=guards)


def rule_life_wx_arch(ctx, R, arch):
    F, hs = jit.handlers(ctx, arch)
    cls = jit.ARCH[arch]['cls']
    short = cls.split('::')[-1]
    R.rule('WX-ARCH', '%s: enableWriting / enableExecution / enableAll request RW / RX / RWX through the three helpers over the whole mapping(s); the secure template instantiations never call enableAll; mapping and unmapping sizes agree' % arch, min_instances=5)
    for name, helper in (('enableWriting', 'setPagesRW'), ('enableExecution', 'setPagesRX'), ('enableAll', 'setPagesRWX')):
        f = F.func('%s::%s' % (cls, name))
        cs = [c for c in calls(f['body']) if c.get('name', '').startswith('setPages')]
        R.check(len(cs) >= 1 and all(c['name'] == helper for c in cs), '%s %s -> %s' % (arch, name, helper), '%s:%d' % (f['file'], f['line']), expected=helper, found=[show(c) for c in cs])
    for f in F.funcs(r'^randomx::Compiled(Light)?Vm<.*, true>::'):
        if not f.get('body'):
            continue
        bad = [c for n_, c in CFG(f).find_calls(lambda c: c.get('name') in ('enableAll', 'setPagesRWX'))]
        if f.get('kind') == 'ctor' or f['name'] in ('run', 'setCache'):
            R.check(not bad, '%s secure %s' % (arch, f['q'].split('::', 1)[1][:60]), '%s:%d' % (f['file'], f['line']), expected='no enableAll', found=[show(c) for c in bad] or 'none')
    ctor = F.func('%s::%s' % (cls, short))
    dtor = F.func('%s::~%s' % (cls, short))
    with astq.nocasts():
        am = sorted(showv(c['a'][0]) for x in [ctor['body']] + [i['e'] for i in ctor.get('inits', []) if astq.is_node(i.get('e'))] for c in calls(x) if c.get('name') == 'allocMemoryPages')
        fm = sorted(showv(c['a'][1]) for c in calls(dtor['body']) if c.get('name') == 'freePagedMemory')
    R.check(len(am) >= 1 and am == fm, '%s code mapping sizes' % arch, '%s:%d' % (ctor['file'], ctor['line']), expected='allocMemoryPages(N) / freePagedMemory(p, N) with the same N', found='alloc %s free %s' % (am, fm))
    thr = [x for x in walk(ctor['body']) if x['k'] == 'Throw']
    R.check(len(thr) >= 1 and all('std::exception' in (t.get('bases') or []) for t in thr), '%s constructor failure is an std::exception' % arch, '%s:%d' % (ctor['file'], ctor['line']), expected='throw std::runtime_error', found=[t.get('tty') for t in thr])


def rule_emask(ctx, R, arch):
    cfg = jit.ARCH[arch]['config']
    F = astq.Facts(ctx, cfg)
    R.rule('A64-EMASK', 'on targets whose JIT takes the E-register masks from the register file, CompiledVm::execute copies config.eMask into reg.f before calling the generated program', min_instances=4)
    n = 0
    for f in F.funcs(r'^randomx::CompiledVm<.*>::execute$'):
        g = CFG(f)
        mc = g.find_calls(lambda c: c.get('name') == 'memcpy' and 'eMask' in show(c['a'][1]))
        run = g.find_calls(lambda c: c.get('name') == 'getProgramFunc')
        n += 1
        with astq.nocasts():
            ok = len(mc) == 1 and len(run) == 1 and g.dominates(mc[0][0], run[0][0]) and showv(mc[0][1]['a'][0]) == 'this->reg.f' and val(mc[0][1]['a'][2]) == 16
        R.check(ok, '%s %s' % (arch, f['q'].split('::')[1][:50]), '%s:%d' % (f['file'], f['line']), expected='memcpy(reg.f, config.eMask, 16) dominates the call of the generated code', found='%d copies, %d calls' % (len(mc), len(run)))
    if n < 4:
        raise AnalysisBroken('A64-EMASK: CompiledVm::execute instantiations not found in %s' % cfg)
