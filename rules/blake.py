"""C11 rules: B2-CONST, B2-COMPRESS, B2-UPDATE, B2-FINAL, B2-REJECT, B2-KEYED, B2-COMMIT (+ B2-INBOUND from membound)."""
import math
import re
from decimal import Decimal, getcontext

import astq
from astq import CFG, calls, loc, show, showv, strip_all, val, walk
from core import AnalysisBroken
from rules.driver import loop_trip, ref_id

SIGMA = [
    [0, 1, 2, 3, 4, 5, 6, 7, 8, 9, 10, 11, 12, 13, 14, 15],
    [14, 10, 4, 8, 9, 15, 13, 6, 1, 12, 0, 2, 11, 7, 5, 3],
    [11, 8, 12, 0, 5, 2, 15, 13, 10, 14, 3, 6, 7, 1, 9, 4],
    [7, 9, 3, 1, 13, 12, 11, 14, 2, 6, 5, 10, 4, 0, 15, 8],
    [9, 0, 5, 7, 2, 4, 10, 15, 14, 1, 11, 12, 6, 8, 3, 13],
    [2, 12, 6, 10, 0, 11, 8, 3, 4, 13, 7, 5, 15, 14, 1, 9],
    [12, 5, 1, 15, 14, 13, 4, 10, 0, 7, 6, 3, 9, 2, 8, 11],
    [13, 11, 7, 14, 12, 1, 3, 9, 5, 0, 15, 4, 8, 6, 2, 10],
    [6, 15, 14, 9, 11, 3, 0, 8, 12, 2, 13, 7, 1, 4, 10, 5],
    [10, 2, 8, 4, 7, 6, 1, 5, 15, 11, 9, 14, 3, 12, 13, 0],
]   # RFC 7693 section 2.7; rounds 10 and 11 reuse rows 0 and 1


def iv_from_primes():
    getcontext().prec = 60
    out = []
    for p in (2, 3, 5, 7, 11, 13, 17, 19):
        r = Decimal(p).sqrt()
        frac = r - int(r)
        out.append(int(frac * (1 << 64)))
    return out


def fn(F, name):
    for cand in (name, 'randomx_' + name):
        if F.has_func(cand):
            return F.func(cand)
    raise AnalysisBroken('Blake2b function %s not found' % name)


def rule_const(ctx, R, F):
    R.rule('B2-CONST', 'blake2b_IV = first 64 fractional bits of the square roots of the first 8 primes; blake2b_sigma = RFC 7693 2.7 (12 rows, last two repeat the first two); '
           'block 128 bytes, 12 rounds, rotations 32/24/16/63, rotr64 definition, parameter block field order', min_instances=20)
    iv = F.glob('blake2b_IV')
    vals = [val(e) for e in iv['init']['e']]
    R.eq('blake2b_IV', '%s:%d' % (iv['file'], iv['line']), [hex(x) for x in iv_from_primes()], [hex(v) for v in vals])
    sg = F.glob('blake2b_sigma')
    rows = [[val(e) for e in r['e']] for r in sg['init']['e']]
    exp = SIGMA + SIGMA[:2]
    for i, row in enumerate(exp):
        R.eq('blake2b_sigma[%d]' % i, '%s:%d' % (sg['file'], sg['line']), row, rows[i] if i < len(rows) else None)
    R.eq('sigma rows', '%s:%d' % (sg['file'], sg['line']), 12, len(rows))
    for n, v in (('BLAKE2B_BLOCKBYTES', 128), ('BLAKE2B_OUTBYTES', 64), ('BLAKE2B_KEYBYTES', 64), ('BLAKE2B_SALTBYTES', 16), ('BLAKE2B_PERSONALBYTES', 16)):
        R.eq(n, 'src/blake2/blake2.h', v, F.enumerator(n))
    ro = F.func('rotr64')
    ren = {p['id']: 'P%d' % i for i, p in enumerate(ro['params'])}
    with astq.renaming(ren):
        rets = [showv(x['e']) for x in walk(ro['body']) if x['k'] == 'Return']
    R.eq('rotr64', '%s:%d' % (ro['file'], ro['line']), ['((P0 >> P1) | (P0 << (64 - P1)))'], rets)
    pr = F.record('__blake2b_param')
    flds = [(fl['name'], fl.get('off')) for fl in pr['fields']]
    exp_f = [('digest_length', 0), ('key_length', 1), ('fanout', 2), ('depth', 3), ('leaf_length', 4), ('node_offset', 8), ('node_depth', 16), ('inner_length', 17), ('reserved', 18), ('salt', 32), ('personal', 48)]
    R.eq('parameter block layout (RFC 7693 2.5)', '%s:%d' % (pr['file'], pr['line']), exp_f, flds)
    R.eq('parameter block size', '%s:%d' % (pr['file'], pr['line']), 64, pr.get('size'))


def flatten_stmts(s, out):
    """simple statements in execution order, looking through do { } while (0) wrappers of the macros"""
    if s is None:
        return
    k = s['k']
    if k == 'Compound':
        for x in s['s']:
            flatten_stmts(x, out)
    elif k == 'Do' and val(s['c']) == 0:
        flatten_stmts(s['b'], out)
    elif k == 'Null':
        return
    else:
        out.append(s)


def rule_compress(ctx, R, F):
    R.rule('B2-COMPRESS', 'blake2b_compress is the RFC 7693 3.2 function F statement by statement: little-endian message words, v = h | IV with t and f folded into v12..v15, 12 rounds of the 8 G mixes on '
           'the RFC\'s column/diagonal index quadruples with message words sigma[r][2i], sigma[r][2i+1] and rotations 32, 24, 16, 63, then h ^= v[i] ^ v[i+8]', min_instances=70)
    f = fn(F, 'blake2b_compress')
    R.saw(fn=f['q'], unit=f['_unit'])
    ren = {f['params'][0]['id']: 'S', f['params'][1]['id']: 'B'}
    for x in walk(f['body']):
        if x['k'] == 'Decl':
            for d in x['d']:
                ren[d['id']] = d['name'] if d['name'] in ('m', 'v') else {'i': 'i', 'r': 'r'}.get(d['name'], d['name'])
    where = '%s:%d' % (f['file'], f['line'])
    top = [s for s in f['body']['s'] if s['k'] != 'Decl']
    loops = [s for s in top if s['k'] == 'For']
    with astq.renaming(ren), astq.nocasts():
        if len(loops) != 4:
            R.violation('structure', where, expected='4 loops (message load, v[0..7], rounds, feed-forward)', found=len(loops))
            return
        # message words
        R.eq('message words', loc(loops[0], f), (16, ['(m[i] = load64((B + (i * 8))))']), (loop_trip_any(loops[0]), [showv(s) for s in astq_body(loops[0])]))
        R.eq('v[0..7] = h', loc(loops[1], f), (8, ['(v[i] = S->h[i])']), (loop_trip_any(loops[1]), [showv(s) for s in astq_body(loops[1])]))
        mid = [showv(s) for s in top if s['k'] != 'For']
        exp_mid = ['(v[8] = blake2b_IV[0])', '(v[9] = blake2b_IV[1])', '(v[10] = blake2b_IV[2])', '(v[11] = blake2b_IV[3])', '(v[12] = (blake2b_IV[4] ^ S->t[0]))', '(v[13] = (blake2b_IV[5] ^ S->t[1]))',
                   '(v[14] = (blake2b_IV[6] ^ S->f[0]))', '(v[15] = (blake2b_IV[7] ^ S->f[1]))']
        R.eq('v[8..15] = IV ^ (t, f)', where, exp_mid, mid)
        R.eq('rounds', loc(loops[2], f), 12, loop_trip_any(loops[2]))
        stm = []
        flatten_stmts(loops[2]['b'], stm)
        got = [showv(s) for s in stm]
        quads = [(0, 4, 8, 12), (1, 5, 9, 13), (2, 6, 10, 14), (3, 7, 11, 15), (0, 5, 10, 15), (1, 6, 11, 12), (2, 7, 8, 13), (3, 4, 9, 14)]
        exp = []
        for i, (a, b, c, d) in enumerate(quads):
            A, Bv, C, D = 'v[%d]' % a, 'v[%d]' % b, 'v[%d]' % c, 'v[%d]' % d
            exp += ['(%s = ((%s + %s) + m[blake2b_sigma[r][%d]]))' % (A, A, Bv, 2 * i), '(%s = rotr64((%s ^ %s), 32))' % (D, D, A), '(%s = (%s + %s))' % (C, C, D), '(%s = rotr64((%s ^ %s), 24))' % (Bv, Bv, C),
                    '(%s = ((%s + %s) + m[blake2b_sigma[r][%d]]))' % (A, A, Bv, 2 * i + 1), '(%s = rotr64((%s ^ %s), 16))' % (D, D, A), '(%s = (%s + %s))' % (C, C, D), '(%s = rotr64((%s ^ %s), 63))' % (Bv, Bv, C)]
        if len(got) != len(exp):
            R.violation('G mixes', loc(loops[2], f), expected='%d statements' % len(exp), found='%d statements' % len(got))
        for idx, (e, g) in enumerate(zip(exp, got)):
            R.eq('round statement %d (G%d step %d)' % (idx, idx // 8, idx % 8), loc(stm[idx], f), e, g)
        R.eq('feed-forward', loc(loops[3], f), (8, ['(S->h[i] = ((S->h[i] ^ v[i]) ^ v[(i + 8)]))']), (loop_trip_any(loops[3]), [showv(s) for s in astq_body(loops[3])]))
    m = [d for x in walk(f['body']) if x['k'] == 'Decl' for d in x['d'] if d['name'] in ('m', 'v')]
    R.check(all(d.get('arrlen') == 16 and d['ty'].startswith('unsigned long') for d in m) and len(m) == 2, 'work vectors are uint64[16]', where, expected='m[16], v[16]', found=[(d['name'], d['ty']) for d in m])
    ld = F.func('load64')
    R.check(any(c.get('name') in ('load64_native', 'memcpy') for c in calls(ld['body'])) or any(x['k'] == 'Bin' and x['op'] == '<<' for x in walk(ld['body'])), 'load64 is a little-endian load', '%s:%d' % (ld['file'], ld['line']), expected='native load on little-endian hosts', found=show(ld['body'])[:80])


def astq_body(loop):
    out = []
    flatten_stmts(loop['b'], out)
    return out


def rule_update_final(ctx, R, F):
    R.rule('B2-UPDATE', '128-bit counter with carry, last-block flag; blake2b_final: counter += buflen, last-block flag, zero padding, compress, little-endian output of h truncated to outlen via a 64-byte temporary (the streaming behaviour of blake2b_update is decided by B2-STREAM, the finalisation by B2-FINAL)', min_instances=2)
    f = fn(F, 'blake2b_update')
    R.saw(fn=f['q'], unit=f['_unit'])
    ren = {p['id']: 'P%d' % i for i, p in enumerate(f['params'])}
    for x in walk(f['body']):
        if x['k'] == 'Decl':
            for d in x['d']:
                if 'init' in d and ref_id(d['init']) == f['params'][1]['id']:
                    ren[d['id']] = 'PIN'
                elif 'init' in d and show(d['init']).endswith('->buflen'):
                    ren[d['id']] = 'LEFT'
                elif 'init' in d and any(y['k'] == 'Ref' and ren.get(y.get('id')) == 'LEFT' for y in walk(d['init'])):
                    ren[d['id']] = 'FILL'
    where = '%s:%d' % (f['file'], f['line'])
    with astq.renaming(ren), astq.nocasts():
        ifs = [x for x in f['body']['s'] if x['k'] == 'If']
        flush = [x for x in ifs if 'buflen' in show(x['c']) and '128' in showv(x['c'])]
        okf = len(flush) == 1 and showv(flush[0]['c']) == '((P0->buflen + P2) > 128)'
        # the streaming behaviour itself is decided by B2-STREAM (below) whatever the shape of the code; the reference shape is only recorded
        if okf:
            R.ok('flush condition is strict', where, detail='reference shape (S->buflen + inlen) > 128')
        if flush and okf:
            body = []
            for s in flush[0]['t']['s']:
                if s['k'] == 'While':
                    body.append('while %s: %s' % (showv(s['c']), [showv(y) for y in s['b']['s']]))
                else:
                    body.append(showv(s))
            exp = ['unsigned long LEFT = P0->buflen', 'unsigned long FILL = (128 - LEFT)', 'memcpy(&P0->buf[LEFT], PIN, FILL)', 'blake2b_increment_counter(P0, 128)', 'blake2b_compress(P0, P0->buf)',
                   '(P0->buflen = 0)', '(P2 -= FILL)', '(PIN += FILL)',
                   "while (P2 > 128): ['blake2b_increment_counter(P0, 128)', 'blake2b_compress(P0, PIN)', '(P2 -= 128)', '(PIN += 128)']"]
            body = [b.replace('randomx_', '') for b in body]
            if body == exp:
                R.ok('flush block', loc(flush[0], f), detail='reference shape')
        tail = [showv(s) for s in f['body']['s'][-3:]]
        if tail == ['memcpy(&P0->buf[P0->buflen], PIN, P2)', '(P0->buflen += P2)', 'return 0']:
            R.ok('buffer the remainder', where, detail='reference shape')
    rule_stream(ctx, R, F)
    rule_final_eval(ctx, R, F)
    R._cur = 'B2-UPDATE'
    ic = fn(F, 'blake2b_increment_counter')
    ren = {p['id']: 'P%d' % i for i, p in enumerate(ic['params'])}
    with astq.renaming(ren), astq.nocasts():
        R.eq('128-bit counter with carry', '%s:%d' % (ic['file'], ic['line']), ['(P0->t[0] += P1)', '(P0->t[1] += (P0->t[0] < P1))'], [showv(s) for s in ic['body']['s']])
    fl = fn(F, 'blake2b_set_lastblock')
    with astq.renaming({fl['params'][0]['id']: 'P0'}), astq.nocasts():
        last = showv(fl['body']['s'][-1])
    R.check(last in ('(P0->f[0] = -1)', '(P0->f[0] = 18446744073709551615)'), 'last-block flag', '%s:%d' % (fl['file'], fl['line']), expected='f[0] = all ones', found=last)
    f = fn(F, 'blake2b_final')
    R.saw(fn=f['q'], unit=f['_unit'])
    ren = {p['id']: 'P%d' % i for i, p in enumerate(f['params'])}
    for x in walk(f['body']):
        if x['k'] == 'Decl':
            for d in x['d']:
                if d.get('arrlen') == 64:
                    ren[d['id']] = 'TMP'
                    tmp_zero = 'init' in d
                elif any(x2['k'] == 'For' and astq.is_node(x2.get('init')) and x2['init'].get('k') == 'Decl' and any(dd['id'] == d['id'] for dd in x2['init']['d']) for x2 in walk(f['body'])) or d['name'] == 'i':
                    ren[d['id']] = 'i'
    with astq.renaming(ren), astq.nocasts():
        seq = []
        for s in f['body']['s']:
            if s['k'] == 'For':
                seq.append('for %s: %s' % (loop_trip_any(s), [showv(y) for y in astq_body(s)]))
            elif s['k'] in ('If', 'Decl'):
                continue
            else:
                seq.append(showv(s).replace('randomx_', ''))
        exp = ['blake2b_increment_counter(P0, P0->buflen)', 'blake2b_set_lastblock(P0)', 'memset(&P0->buf[P0->buflen], 0, (128 - P0->buflen))', 'blake2b_compress(P0, P0->buf)',
               "for 8: ['store64((TMP + (8 * i)), P0->h[i])']", 'memcpy(P1, TMP, P0->outlen)', 'return 0']
        if seq == exp:
            R.ok('blake2b_final sequence', '%s:%d' % (f['file'], f['line']), detail='reference shape; the behaviour is decided by B2-FINAL')


def loop_trip_any(s):
    t = loop_trip(s)
    if t is not None:
        return t
    c = strip_all(s['c']) if s.get('c') else None
    init = s.get('init')
    if c is not None and c['k'] == 'Bin' and c['op'] == '<' and val(c['r']) is not None and init is not None:
        i0 = strip_all(init)
        if i0['k'] == 'Assign' and val(i0['r']) is not None:
            return val(c['r']) - val(i0['r'])
    return None


def rejects(then):
    """the then-branch does nothing but fail (optionally after invalidating the state)"""
    st = then['s'] if then['k'] == 'Compound' else [then]
    if not st:
        return False
    last = st[-1]
    if not (last['k'] == 'Goto' or (last['k'] == 'Return' and val(last.get('e')) == -1)):
        return False
    return all(strip_all(x)['k'] == 'Call' and 'invalidate' in strip_all(x).get('name', '') for x in st[:-1])


def rule_reject(ctx, R, F):
    R.rule('B2-REJECT', 'every rejected parameter combination returns -1 before any write to the output buffer: in blake2b_final and blake2b the only writes through `out` are unreachable from the '
           'true edge of every parameter test; the tests are the documented ones', min_instances=6)
    f = fn(F, 'blake2b_final')
    g = CFG(f)
    out_id = f['params'][1]['id']
    out_ids = {out_id}
    for x in walk(f['body']):
        if x['k'] == 'Decl':
            for d in x['d']:
                if 'init' in d and any(y['k'] == 'Ref' and y.get('id') in out_ids for y in walk(d['init'])) and '*' in (d.get('ty') or ''):
                    out_ids.add(d['id'])      # alias of the output pointer
    sinks = []
    for n, c in g.find_calls(lambda c: True):
        for idx, a in enumerate(c.get('a', [])):
            if idx == 0 and c.get('name') in ('memcpy', 'memset', 'store64', 'store32', 'memmove') and any(y['k'] == 'Ref' and y.get('id') in out_ids for y in walk(a)):
                sinks.append((n, c))
    if not sinks:
        raise AnalysisBroken('B2-REJECT: no write through the output pointer found in blake2b_final')
    R.ok('blake2b_final output writes located', '%s:%d' % (f['file'], f['line']), detail='%d write site(s) through out' % len(sinks))
    tests = []
    for node in g.nodes:
        if node['kind'] == 'cond' and node.get('owner') and node['owner']['k'] == 'If':
            if rejects(node['owner']['t']):
                tests.append(node)
    # which parameter combinations are rejected: truth table over the atoms of the rejecting tests (however they are grouped into if statements),
    # decided by following the tests in program order
    import itertools
    from astq import bool_atoms, bool_eval
    ordered = sorted(tests, key=lambda t_: (t_['stmt'].get('ln', 0), t_['id']))
    with astq.renaming({p['id']: 'P%d' % i for i, p in enumerate(f['params'])}), astq.nocasts():
        atoms = []
        for t_ in ordered:
            bool_atoms(t_['stmt'], atoms)
        # the four documented tests; a pointer test may appear as `!p` (atom p, inverted) or as the comparison `p == NULL` (atom true = rejected)
        forms = {'S': {'P0': lambda a: not a, '(P0 == 0)': lambda a: a, '(P0 == nullptr)': lambda a: a, '(0 == P0)': lambda a: a},
                 'out': {'P1': lambda a: not a, '(P1 == 0)': lambda a: a, '(P1 == nullptr)': lambda a: a, '(0 == P1)': lambda a: a},
                 'outlen': {'(P2 < P0->outlen)': lambda a: a, '(P0->outlen > P2)': lambda a: a},
                 'reused': {'P0->f[0]': lambda a: a}}
        known = {a_: (what_, fn_) for what_, alts in forms.items() for a_, fn_ in alts.items()}
        unknown = [a for a in atoms if a not in known]
        if unknown:
            raise AnalysisBroken('B2-REJECT: blake2b_final rejects on %s, which is not one of the documented parameter tests (S, out, outlen < S->outlen, S->f[0])' % unknown)
        bad = []
        names = sorted(forms)
        for vals in itertools.product((False, True), repeat=len(names)):
            concept = dict(zip(names, vals))           # e.g. {'S': True} = "S is NULL"
            asg = {}
            for a_ in atoms:
                what_, fn_ = known[a_]
                # atom value that makes fn_(atom) == concept[what_]
                asg[a_] = True if fn_(True) == concept[what_] else False
            want = any(vals)
            got = False
            for t_ in ordered:
                v_ = bool_eval(t_['stmt'], asg)
                if v_ is None:
                    raise AnalysisBroken('B2-REJECT: test %s not decided by the parameter atoms' % showv(t_['stmt']))
                if v_:
                    got = True
                    break
            if got != want:
                bad.append({'S == NULL': concept['S'], 'out == NULL': concept['out'], 'outlen < S->outlen': concept['outlen'], 'S->f[0] != 0': concept['reused'], 'rejected': got})
    R.check(not bad, 'blake2b_final parameter tests', '%s:%d' % (f['file'], f['line']), expected='rejected exactly when S == NULL, out == NULL, outlen < S->outlen or S->f[0] != 0',
            found='differs for %s' % bad[:2] if bad else 'as documented (%d tests, %d atoms)' % (len(tests), len(atoms)))
    for t in tests:
        tsucc = g.succ[t['id']][0]
        for sn, sc in sinks:
            reach = tsucc == sn or g.paths_between(tsucc, sn, set()) if tsucc != sn else True
            R.check(not reach, 'blake2b_final: no write after rejecting %s' % show(t['stmt'])[:50], loc(t['stmt'], f), expected='write to out unreachable from the rejecting edge', found='reachable' if reach else 'unreachable')
            before = sn == t['id'] or bool(g.paths_between(sn, t['id'], set()))
            R.check(not before, 'blake2b_final: no write before the test %s' % show(t['stmt'])[:50], loc(sc, f), expected='the output is not written on a path that can still be rejected', found='%s precedes the test' % show(sc)[:50] if before else 'no write precedes it')
    # one-shot wrapper
    w = fn(F, 'blake2b')
    g = CFG(w)
    fin = g.find_calls(lambda c: c.get('name', '').endswith('blake2b_final'))
    R.check(len(fin) == 1, 'blake2b() finalises once', '%s:%d' % (w['file'], w['line']), expected=1, found=len(fin))
    tests = []
    for node in g.nodes:
        if node['kind'] == 'cond' and node.get('owner') and node['owner']['k'] == 'If':
            if rejects(node['owner']['t']):
                tests.append(node)
    with astq.renaming({p['id']: 'P%d' % i for i, p in enumerate(w['params'])}), astq.nocasts():
        conds = [showv(t['stmt']).replace('randomx_', '') for t in tests]
    norm = [c.replace('((void *)0)', 'nullptr') for c in conds]
    need = ['P2) && (P3 > 0)', '(P1 == 0)', '(P1 > 64)', 'P4) && (P5 > 0)', '(P5 > 64)', '(0 == P0)']
    joined = ' ; '.join(norm)
    missing = [n for n in need if n not in joined]
    R.check(not missing, 'blake2b() parameter tests', '%s:%d' % (w['file'], w['line']), expected='in==NULL&&inlen, out==NULL, outlen==0, outlen>64, key==NULL&&keylen, keylen>64', found=norm if missing else 'all present')
    for t in tests:
        tsucc = g.succ[t['id']][0]
        for fnode, fc in fin:
            reach = tsucc == fnode or g.paths_between(tsucc, fnode, set())
            R.check(not reach, 'blake2b(): no finalisation after rejecting %s' % show(t['stmt'])[:40], loc(t['stmt'], w), expected='blake2b_final unreachable from the rejecting edge', found='reachable' if reach else 'unreachable')
    # init rejects bad outlen
    for name in ('blake2b_init', 'blake2b_init_key'):
        i = fn(F, name)
        with astq.renaming({p['id']: 'P%d' % k for k, p in enumerate(i['params'])}), astq.nocasts():
            conds = [showv(x['c']) for x in walk(i['body']) if x['k'] == 'If']
        R.check('((P1 == 0) || (P1 > 64))' in conds, name + ' output length test', '%s:%d' % (i['file'], i['line']), expected='outlen == 0 || outlen > 64 rejected', found=conds)


def rule_keyed(ctx, R, F):
    R.rule('B2-KEYED', 'blake2b_init_key sets key_length in the parameter block and feeds the zero-padded 128-byte key block through blake2b_update (so that it stays buffered as a possibly-last block)', min_instances=2)
    f = fn(F, 'blake2b_init_key')
    ren = {p['id']: 'P%d' % i for i, p in enumerate(f['params'])}
    for x in walk(f['body']):
        if x['k'] == 'Decl':
            for d in x['d']:
                if d.get('arrlen') == 128:
                    ren[d['id']] = 'BLOCK'
                elif 'blake2b_param' in d.get('ty', ''):
                    ren[d['id']] = 'PARAM'
    with astq.renaming(ren), astq.nocasts():
        cs = [showv(c).replace('randomx_', '') for c in calls(f['body']) if c.get('name') in ('memset', 'memcpy') and 'BLOCK' in show(c) or c.get('name', '').endswith('blake2b_update') or c.get('name', '').endswith('blake2b_compress')]
        kl = [showv(x) for x in walk(f['body']) if x['k'] == 'Assign' and show(x['l']).endswith('key_length')]
    R.eq('key block', '%s:%d' % (f['file'], f['line']), ['memset(BLOCK, 0, 128)', 'memcpy(BLOCK, P2, P3)', 'blake2b_update(P0, BLOCK, 128)'], cs)
    R.eq('key length parameter', '%s:%d' % (f['file'], f['line']), ['(PARAM.key_length = P3)'], kl)
    i = fn(F, 'blake2b_init')
    ren = {p['id']: 'P%d' % k for k, p in enumerate(i['params'])}
    for x in walk(i['body']):
        if x['k'] == 'Decl':
            for d in x['d']:
                if 'blake2b_param' in d.get('ty', ''):
                    ren[d['id']] = 'PARAM'
    with astq.renaming(ren), astq.nocasts():
        a = {show(x['l']): showv(x['r']) for x in walk(i['body']) if x['k'] == 'Assign'}
    R.eq('unkeyed parameter block', '%s:%d' % (i['file'], i['line']),
         {'PARAM.digest_length': 'P1', 'PARAM.key_length': '0', 'PARAM.fanout': '1', 'PARAM.depth': '1', 'PARAM.leaf_length': '0', 'PARAM.node_offset': '0', 'PARAM.node_depth': '0', 'PARAM.inner_length': '0'}, a)
    ip = fn(F, 'blake2b_init_param')
    with astq.renaming({p['id']: 'P%d' % k for k, p in enumerate(ip['params'])}), astq.nocasts():
        loops = [x for x in walk(ip['body']) if x['k'] == 'For']
        body = [showv(s) for s in astq_body(loops[0])] if loops else None
        ol = [showv(x) for x in walk(ip['body']) if x['k'] == 'Assign' and show(x['l']).endswith('outlen')]
    R.check(loops and loop_trip_any(loops[0]) == 8 and body and 'h[i] ^= load64' in body[0], 'h = IV ^ parameter block', '%s:%d' % (ip['file'], ip['line']), expected='8 x h[i] ^= load64(p + 8i)', found=body)
    R.eq('outlen recorded', '%s:%d' % (ip['file'], ip['line']), ['(P0->outlen = P1->digest_length)'], ol)
    i0 = fn(F, 'blake2b_init0')
    with astq.renaming({i0['params'][0]['id']: 'P0'}), astq.nocasts():
        ssz = F.record('__blake2b_state').get('size')
        R.eq('state reset', '%s:%d' % (i0['file'], i0['line']), ['memset(P0, 0, %s)' % ssz, 'memcpy(P0->h, blake2b_IV, 64)'], [showv(s) for s in i0['body']['s']])


def rule_commit(ctx, R, F):
    R.rule('B2-COMMIT', 'randomx_calculate_commitment is exactly blake2b_init(32); update(input, inputSize); update(hash_in, 32); final(com_out, 32)', min_instances=1)
    f = F.func('randomx_calculate_commitment', unit='src/randomx.cpp')
    R.saw(fn=f['q'], unit='src/randomx.cpp')
    ren = {p['id']: 'P%d' % i for i, p in enumerate(f['params'])}
    for x in walk(f['body']):
        if x['k'] == 'Decl':
            for d in x['d']:
                ren[d['id']] = 'STATE'
    with astq.renaming(ren), astq.nocasts():
        seq = [showv(c).replace('randomx_', '') for c in calls(f['body']) if c.get('name') != '__assert_fail']
    hs = int(F.macro('RANDOMX_HASH_SIZE')['body'])
    exp = ['blake2b_init(&STATE, %d)' % hs, 'blake2b_update(&STATE, P0, P1)', 'blake2b_update(&STATE, P2, %d)' % hs, 'blake2b_final(&STATE, P3, %d)' % hs]
    R.eq('commitment sequence', '%s:%d' % (f['file'], f['line']), exp, seq)


# ---------------------------------------------------------------------------------------------
# [B2-STREAM] streaming semantics of blake2b_update, decided on the bookkeeping slice
B2_S, BUF, IN, OUT = 0x1000, 0x2000, 0x100000, 0x300000
M64 = (1 << 64) - 1
HTAG = 0x48000000


class _B2H:
    def __init__(self, b, t0, inline=None, outlen=64):
        self.inline = inline or {}
        self.outlen = outlen
        self.f0 = 0
        self.final = False
        self.buflen = b
        self.t = [t0, 0]
        self.mem = {BUF + j: ('old', j) for j in range(b)}
        self.events = []
        self.bad = []

    def sizeof(self, base):
        return None

    def addr(self, n, env, sl):
        n = strip_all(n)
        while n['k'] == 'Cast':
            n = strip_all(n['e'])
        if n['k'] == 'Idx':
            b_ = self.addr(n['b'], env, sl) if show(n['b']).endswith('buf') or strip_all(n['b'])['k'] in ('Mem', 'Idx') else sl.ev(n['b'], env)
            i_ = sl.ev(n['i'], env)
            return None if b_ is None or i_ is None else b_ + i_
        s_ = show(n)
        if s_.endswith('->buf') or s_.endswith('.buf'):
            return BUF
        return sl.ev(n, env)

    def leaf(self, n, env, sl):
        n0 = strip_all(n)
        s_ = show(n0)
        if n0['k'] == 'Un' and n0.get('op') == '&':
            return self.addr(n0['e'], env, sl)
        if s_.endswith('->buflen') or s_.endswith('.buflen'):
            return self.buflen
        if s_.endswith('->buf') or s_.endswith('.buf'):
            return BUF
        if n0['k'] == 'Idx':
            bs = show(n0['b'])
            i_ = sl.ev(n0['i'], env)
            if bs.endswith('->t') and i_ in (0, 1):
                return self.t[i_]
            if bs.endswith('->f') and i_ in (0, 1):
                return self.f0 if i_ == 0 else 0
            if bs.endswith('->h') and i_ is not None and 0 <= i_ < 8:
                return HTAG + i_
        if s_.endswith('->outlen') or s_.endswith('.outlen'):
            return self.outlen
        if s_.endswith('->last_node') or s_.endswith('.last_node'):
            return 0
        return None

    def store(self, n, env, sl):
        l = strip_all(n['l'])
        s_ = show(l)
        rv = sl.ev(n['r'], env)

        def upd(old):
            if n['k'] == 'Assign':
                return rv
            op = n['op'][:-1]
            if rv is None or old is None:
                return None
            return {'+': old + rv, '-': old - rv}.get(op)
        if s_.endswith('->buflen') or s_.endswith('.buflen'):
            v = upd(self.buflen)
            if v is None:
                self.bad.append('buflen becomes unknown at line %s' % n.get('ln'))
            else:
                self.buflen = v & 0xffffffff
            return
        if l['k'] == 'Idx' and show(l['b']).endswith('->f'):
            i_ = sl.ev(l['i'], env)
            if i_ == 0:
                self.f0 = (rv if rv is not None else 1) & M64
            return
        if l['k'] == 'Idx' and show(l['b']).endswith('->t'):
            i_ = sl.ev(l['i'], env)
            v = upd(self.t[i_]) if i_ in (0, 1) else None
            if v is None:
                self.bad.append('counter becomes unknown at line %s' % n.get('ln'))
            else:
                self.t[i_] = v & M64
            return

    def call(self, n, args, env, sl):
        nm = (n.get('name') or '').replace('randomx_', '')
        if nm in ('memcpy', '__builtin_memcpy', 'memmove') and len(args) == 3:
            d_ = self.addr(n['a'][0], env, sl)
            s_ = self.addr(n['a'][1], env, sl)
            k_ = args[2]
            if None in (d_, s_, k_) or k_ < 0 or k_ > 4096:
                self.bad.append('memcpy with unknown / absurd operands at line %s (n = %s)' % (n.get('ln'), k_))
                return None
            if BUF <= d_ < BUF + 128 and d_ + k_ > BUF + 128:
                self.bad.append('memcpy of %d bytes to buf[%d] overflows the 128-byte buffer (line %s)' % (k_, d_ - BUF, n.get('ln')))
            vals = [self.mem.get(s_ + j, ('in', s_ + j - IN) if IN <= s_ + j < IN + (1 << 16) else ('undef', s_ + j)) for j in range(k_)]
            for j, v in enumerate(vals):
                self.mem[d_ + j] = v
            return None
        if nm == 'blake2b_compress' and len(args) == 2:
            p_ = self.addr(n['a'][1], env, sl)
            if p_ is None:
                self.bad.append('compress of an unknown block at line %s' % n.get('ln'))
                return None
            blk = tuple(self.mem.get(p_ + j, ('in', p_ + j - IN) if IN <= p_ + j < IN + (1 << 16) else ('undef', p_ + j)) for j in range(128))
            self.events.append((blk, self.t[0], self.t[1]) if not self.final else ('compress', blk, self.t[0], self.t[1], self.f0))
            return None
        if nm in self.inline:
            return ('inline', self.inline[nm])
        if nm in ('memset', '__builtin_memset') and len(args) == 3:
            d_ = self.addr(n['a'][0], env, sl)
            if None in (d_, args[1], args[2]) or args[2] < 0 or args[2] > 4096:
                self.bad.append('memset with unknown operands at line %s' % n.get('ln'))
                return None
            for j in range(args[2]):
                self.mem[d_ + j] = ('byte', args[1] & 255)
            return None
        if nm == 'store64' and len(args) == 2:
            d_ = self.addr(n['a'][0], env, sl)
            if d_ is None or args[1] is None:
                self.bad.append('store64 with unknown operands at line %s' % n.get('ln'))
                return None
            for j in range(8):
                self.mem[d_ + j] = ('h', args[1] - HTAG, j) if HTAG <= args[1] < HTAG + 8 else ('word', args[1], j)
            return None
        return None



def rule_stream(ctx, R, F):
    import slice as slc
    R.rule('B2-STREAM', 'blake2b_update(S, in, inlen) with b bytes already buffered compresses exactly the first ceil((b + inlen) / 128) - 1 blocks of the byte stream buffered-bytes || input (each block made of the right bytes, in order), '
           'with the 128-bit counter advanced by 128 before each compression, and leaves the remaining 1..128 bytes buffered with buflen equal to their number; for b in {0, 1, 17, 64, 127, 128} x inlen 0..300, '
           'decided by evaluating the bookkeeping slice of the function (buffer offsets, lengths, counter; the compression itself is a recorded event)', min_instances=1500)
    f = fn(F, 'blake2b_update')
    inc = fn(F, 'blake2b_increment_counter')
    ps = f['params']
    where = '%s:%d' % (f['file'], f['line'])
    S = B2_S
    n = 0
    for b in (0, 1, 17, 64, 127, 128):
        for inlen in range(0, 301):
            t0 = 0xFFFFFFFFFFFFFF00 if (b + inlen) % 7 == 0 else 1280        # some runs start just below a carry into t[1]
            h = _B2H(b, t0, {'blake2b_increment_counter': inc})
            sl = slc.Slice(F, h, {}, limit=20000, what='B2-STREAM')
            env = {ps[0]['id']: S, ps[1]['id']: IN, ps[2]['id']: inlen}
            try:
                ret = sl.run(f['body'], env)
            except slc.NeedChoice as e:
                raise AnalysisBroken('B2-STREAM: condition %s does not depend on the lengths alone' % e.key)
            if ret is not None and ret[0] == 'ret' and ret[1] not in (0, None):
                h.bad.append('valid call rejected with %s' % ret[1])
            stream = [('old', j) for j in range(b)] + [('in', j) for j in range(inlen)]
            total = len(stream)
            nblk = 0 if (total <= 128 or inlen == 0) else (total + 127) // 128 - 1
            exp_ev = []
            t = t0
            for k_ in range(nblk):
                t = t + 128
                exp_ev.append((tuple(stream[128 * k_:128 * k_ + 128]), t & M64, t >> 64))
            rest = stream[128 * nblk:]
            got_rest = [h.mem.get(BUF + j) for j in range(h.buflen)] if 0 <= h.buflen <= 128 else None
            ok = not h.bad and h.events == exp_ev and h.buflen == len(rest) and got_rest == rest
            n += 1
            if not ok or (inlen % 16 == 0):
                why = list(h.bad)
                if h.events != exp_ev:
                    if len(h.events) != len(exp_ev):
                        why.append('%d blocks compressed, expected %d' % (len(h.events), len(exp_ev)))
                    else:
                        for k_, (a_, e_) in enumerate(zip(h.events, exp_ev)):
                            if a_ != e_:
                                why.append('block %d: counter %d (expected %d)%s' % (k_, a_[1] + (a_[2] << 64), e_[1] + (e_[2] << 64), '' if a_[0] == e_[0] else ', wrong bytes: starts with %s, expected %s' % (a_[0][0], e_[0][0])))
                                break
                if h.buflen != len(rest):
                    why.append('buflen %d, expected %d' % (h.buflen, len(rest)))
                elif got_rest != rest:
                    why.append('buffered bytes are not the tail of the stream')
                R.check(ok, 'buffered %d, inlen %d' % (b, inlen), where, expected='%d block(s) compressed, %d byte(s) left buffered' % (nblk, len(rest)), found='; '.join(why[:3]) or 'as expected')
            else:
                R.ok('buffered %d, inlen %d' % (b, inlen), where)
    # the empty chunk (in == NULL, inlen == 0), which blake2b() itself passes on for an empty message, is accepted and changes nothing
    for b in (0, 1, 64, 128):
        h = _B2H(b, 1280, {'blake2b_increment_counter': inc})
        sl = slc.Slice(F, h, {}, limit=20000, what='B2-STREAM')
        env = {ps[0]['id']: S, ps[1]['id']: 0, ps[2]['id']: 0}
        try:
            ret = sl.run(f['body'], env)
        except slc.NeedChoice as e:
            raise AnalysisBroken('B2-STREAM: condition %s does not depend on the lengths alone' % e.key)
        rv = ret[1] if ret is not None and ret[0] == 'ret' else 0
        same = [h.mem.get(BUF + j) for j in range(b)] == [('old', j) for j in range(b)]
        ok = rv == 0 and not h.events and h.buflen == b and same and not h.bad
        n += 1
        R.check(ok, 'buffered %d, empty chunk (NULL, 0)' % b, where, expected='returns 0; nothing compressed; buffer and buflen unchanged',
                found='returns %s; %d block(s) compressed; buflen %s%s' % (rv, len(h.events), h.buflen, '; ' + '; '.join(h.bad[:2]) if h.bad else ''))
    if n < 1500:
        raise AnalysisBroken('B2-STREAM: only %d cases evaluated' % n)


def rule_final_eval(ctx, R, F):
    import slice as slc
    R.rule('B2-FINAL', 'blake2b_final with b bytes buffered (0..128) and a digest length 1..64: the counter is advanced by b, the last-block flag is set before the one compression, the block is the buffered bytes followed by zeros, '
           'and exactly the first outlen bytes of the little-endian h words reach the output (nothing beyond); decided on the bookkeeping slice', min_instances=150)
    f = fn(F, 'blake2b_final')
    inline = {}
    for nm in ('blake2b_increment_counter', 'blake2b_set_lastblock', 'blake2b_set_lastnode', 'blake2b_is_lastblock'):
        try:
            inline[nm] = fn(F, nm)
        except AnalysisBroken:
            pass
    ps = f['params']
    where = '%s:%d' % (f['file'], f['line'])
    n = 0
    for b in list(range(0, 129, 7)) + [1, 64, 127, 128]:
        for outlen in (1, 7, 8, 20, 32, 33, 63, 64):
            t0 = 0xFFFFFFFFFFFFFFC0 if b % 2 else 256
            h = _B2H(b, t0, inline, outlen)
            h.final = True
            sl = slc.Slice(F, h, {}, limit=20000, what='B2-FINAL')
            env = {ps[0]['id']: B2_S, ps[1]['id']: OUT, ps[2]['id']: outlen}
            try:
                sl.run(f['body'], env)
            except slc.NeedChoice as e:
                raise AnalysisBroken('B2-FINAL: condition %s does not depend on the lengths alone' % e.key)
            comp = [e for e in h.events if e[0] == 'compress']
            why = list(h.bad)
            t = t0 + b
            blk = tuple([('old', j) for j in range(b)] + [('byte', 0)] * (128 - b))
            if len(comp) != 1:
                why.append('%d compressions' % len(comp))
            else:
                _, gb, g0, g1, gf = comp[0]
                if gb != blk:
                    why.append('block is not the buffered bytes padded with zeros')
                if (g0, g1) != (t & M64, t >> 64):
                    why.append('counter %d, expected %d' % (g0 + (g1 << 64), t))
                if gf != M64:
                    why.append('last-block flag %#x at the compression' % gf)
            outb = {a_ - OUT: v for a_, v in h.mem.items() if OUT - 4096 <= a_ < OUT + 4096}
            want = {j: ('h', j // 8, j % 8) for j in range(outlen)}
            if outb != want:
                extra = sorted(k_ for k_ in outb if k_ not in want)
                miss = sorted(k_ for k_ in want if outb.get(k_) != want[k_])
                why.append('output bytes %s' % ('written beyond outlen: %s' % extra[:4] if extra else 'missing / wrong: %s' % miss[:4]))
            n += 1
            R.check(not why, 'buffered %d, digest length %d' % (b, outlen), where, expected='counter += %d, flag, padded block, %d output bytes' % (b, outlen), found='; '.join(why[:3]) or 'as expected')
    if n < 150:
        raise AnalysisBroken('B2-FINAL: only %d cases' % n)
