"""Helpers shared by rule modules."""
import re


def split_top(s, sep=','):
    out, cur, depth = [], '', 0
    for ch in s:
        if ch in '(<[{':
            depth += 1
        elif ch in ')>]}':
            depth -= 1
        if ch == sep and depth == 0:
            out.append(cur.strip())
            cur = ''
        else:
            cur += ch
    if cur.strip():
        out.append(cur.strip())
    return out


def demangled_params(dem):
    """(params, trailing) of a demangled C++ signature, or (None, '') for C names."""
    # find the last top-level '(' ... ')' group
    depth = 0
    end = None
    start = None
    for idx in range(len(dem) - 1, -1, -1):
        ch = dem[idx]
        if ch == ')':
            if depth == 0 and end is None:
                end = idx
            depth += 1
        elif ch == '(':
            depth -= 1
            if depth == 0 and end is not None:
                start = idx
                break
    if start is None:
        return None, ''
    inner = dem[start + 1:end]
    params = split_top(inner) if inner.strip() and inner.strip() != 'void' else []
    return params, dem[end + 1:]


def mangled_param_is_const(name, idx, cf):
    """True if LLVM parameter idx of the external C++ function is a pointer/reference to const
    according to its Itanium-mangled (demangled) signature."""
    dem = cf['dem']
    if dem == name:
        return False  # C function: no information
    params, trailing = demangled_params(dem)
    if params is None:
        return False
    args = cf['args']
    shift = 0
    if args and args[0].get('sret'):
        if idx == 0:
            return False
        shift = 1
    nllvm = len(args) - shift
    j = idx - shift
    if nllvm == len(params) + 1:
        if j == 0:
            return trailing.strip().startswith('const')
        j -= 1
    if j < 0 or j >= len(params):
        return False
    p = params[j]
    return bool(re.search(r'const\s*[&*]$', p)) or bool(re.search(r'const\s*\*\s*const$', p))


def strip_targs(q):
    """randomx::VmBase<randomx::AlignedAllocator<64>, true>::run -> randomx::VmBase::run"""
    out, depth = '', 0
    for ch in q:
        if ch == '<':
            depth += 1
        elif ch == '>':
            depth -= 1
        elif depth == 0:
            out += ch
    return out


def ptr_eval(n, asg):
    """truth value of a pointer test (p, !p, p == nullptr, p != 0, && / || of those) under {decl id: is non-null}; None when the condition is something else"""
    from astq import strip_all, val
    n = strip_all(n)
    if n['k'] == 'Bin' and n['op'] in ('&&', '||'):
        a_, b_ = ptr_eval(n['l'], asg), ptr_eval(n['r'], asg)
        if n['op'] == '&&':
            return False if (a_ is False or b_ is False) else (None if None in (a_, b_) else True)
        return True if (a_ is True or b_ is True) else (None if None in (a_, b_) else False)
    if n['k'] == 'Un' and n.get('op') == '!':
        a_ = ptr_eval(n['e'], asg)
        return None if a_ is None else not a_
    if n['k'] == 'Bin' and n['op'] in ('!=', '=='):
        for x_, y_ in ((n['l'], n['r']), (n['r'], n['l'])):
            xs, ys = strip_all(x_), strip_all(y_)
            while xs['k'] == 'Cast':
                xs = strip_all(xs['e'])
            while ys['k'] == 'Cast':
                ys = strip_all(ys['e'])
            if xs['k'] == 'Ref' and xs.get('id') in asg and (ys['k'] == 'Null' or val(ys) == 0):
                return asg[xs['id']] == (n['op'] == '!=')
        return None
    while n['k'] == 'Cast':
        n = strip_all(n['e'])
    if n['k'] == 'Ref' and n.get('id') in asg:
        return asg[n['id']]
    return None


def normal_flow(s):
    """copy of a statement tree in which every try statement is replaced by its block (the non-throwing flow)"""
    if isinstance(s, dict):
        if s.get('k') == 'Try':
            return normal_flow(s['b'])
        return {k_: normal_flow(v_) for k_, v_ in s.items()}
    if isinstance(s, list):
        return [normal_flow(x) for x in s]
    return s
