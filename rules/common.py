"""Helpers shared by rule modules."""
import re


def split_top(s, sep=','):
    out, cur, depth = [], '', 0
    for ch in s:
        if ch in '(<[{':
            depth += 1
        elif ch in ')>]}':
            depth -= 1
        if ch == sep and depth == 0:
            out.append(cur.strip())
            cur = ''
        else:
            cur += ch
    if cur.strip():
        out.append(cur.strip())
    return out


def demangled_params(dem):
    """(params, trailing) of a demangled C++ signature, or (None, '') for C names."""
    # find the last top-level '(' ... ')' group
    depth = 0
    end = None
    start = None
    for idx in range(len(dem) - 1, -1, -1):
        ch = dem[idx]
        if ch == ')':
            if depth == 0 and end is None:
                end = idx
            depth += 1
        elif ch == '(':
            depth -= 1
            if depth == 0 and end is not None:
                start = idx
                break
    if start is None:
        return None, ''
    inner = dem[start + 1:end]
    params = split_top(inner) if inner.strip() and inner.strip() != 'void' else []
    return params, dem[end + 1:]


def mangled_param_is_const(name, idx, cf):
    """True if LLVM parameter idx of the external C++ function is a pointer/reference to const
    according to its Itanium-mangled (demangled) signature."""
    dem = cf['dem']
    if dem == name:
        return False  # C function: no information
    params, trailing = demangled_params(dem)
    if params is None:
        return False
    args = cf['args']
    shift = 0
    if args and args[0].get('sret'):
        if idx == 0:
            return False
        shift = 1
    nllvm = len(args) - shift
    j = idx - shift
    if nllvm == len(params) + 1:
        if j == 0:
            return trailing.strip().startswith('const')
        j -= 1
    if j < 0 or j >= len(params):
        return False
    p = params[j]
    return bool(re.search(r'const\s*[&*]$', p)) or bool(re.search(r'const\s*\*\s*const$', p))


def strip_targs(q):
    """randomx::VmBase<randomx::AlignedAllocator<64>, true>::run -> randomx::VmBase::run"""
    out, depth = '', 0
    for ch in q:
        if ch == '<':
            depth += 1
        elif ch == '>':
            depth -= 1
        elif depth == 0:
            out += ch
    return out
