"""C03 A hash does not depend on the history of the VM, cache or dataset objects."""
import astq
from rules import a64patch, aes, argon, decode, driver, dsinit, genreset, jitcross, vmcfg, rvvpatch

LEVEL = 'other'
TECHNIQUE = ('CFG dominance on the drivers, definite-assignment of per-program VM state, decoder def-use path enumeration, guard/capture agreement of the set_cache shortcut, sibling comparison of call sequences; vtable-resolved effect comparison of the two binding setters'
         '; interprocedural needs / must-set summaries over the statement CFGs of each JIT back-end (generator state re-initialised by every entry point); path-count analysis of the A64 template patch sites')
CLAIM = ('Decides statically the mechanisms that make a hash independent of object history: the scratchpad refill and rounding reset dominate every program run in all '
         'drivers and cover the whole workspace; every per-program VM field is assigned by initialize(); the bytecode decoder defines every field its executors read '
         '(bytecode[] survives across programs, keys and v1/v2 switches, so an undefined field would be a stale one); key bookkeeping follows every bind; the same-key '
         'shortcut of randomx_vm_set_cache compares every pointer a setCache override captures; v1/v2 switches reach the compiler; first/next/last are the single-call '
         'sequence. Equality of digests over histories is numeric and not claimed.'
         ' Also: every v1/v2 patch the AArch64 back-end applies to its persistent code buffer is undone by the other arm (V2-SYM), and the fused fingerprint-and-refill covers exactly the scratchpad for every size (AES-COVER).'
         ' In every concrete VM class at most one of the resolved virtual setters setCache / setDataset writes to the object (BIND-EXCL, vtables of the linked IR), because randomx_create_vm calls both and the two pointers share storage.'
         ' No generator state leaks from one generate* call into the next in any of the three back-ends (GEN-RESET: every scalar member the handlers advance is set by each entry point before it is read), every patch site of the A64 template is rewritten with the same number of words by every program (A64-PATCHLEN), and the compiled SuperscalarHash is regenerated at every cache initialisation (DS-INITSEL).')
LEVEL_NOTE = ('Trusted: clang 14 AST of the build flags; the design assumption that cache content is a function of the key; hand-written asm prologue zeroes r0-r7 '
              '(checked as constants in C04), JIT-emitted code reads only what initialize()/generateProgram wrote.')
EXPLANATION = ('Rules DRV-RESET, DRV-SEQ, DRV-SIB, DRV-REFILL, VM-STATEINIT, BIND-KEY, BIND-GUARD, FLAG-PROP and DEC-DEFUSE evaluated on the resolved AST of '
               'src/randomx.cpp, virtual_machine.cpp, vm_*.cpp and bytecode_machine.cpp for every template instantiation.'
               ' V2-SYM (A64), AES-FUSED, AES-COVER, A2-SKELETON.'
               ' BIND-EXCL.'
         ' GEN-RESET x3, A64-PATCHLEN, DS-INITSEL.')

CLAIM += (' No plain member of a JIT compiler object that the constructor leaves indeterminate is read by the functions that give it its first value (CTOR-INIT: a new object is carved out of recycled heap memory, so such a read depends on what lived there before).')
EXPLANATION += ' CTOR-INIT (x86, A64, RV64).'

EXPLANATION += ' VM-INITORDER.'


CLAIM += (' The generators of the RISC-V vector back-end patch words of a per-VM copy of the code template in place; every patched word that is an instruction reachable from the entry of the generated routine is written on every path through the generator, so that no program keeps a jump or an instruction an earlier program (other flags, other version) needed (RVV-PATCH-MUST).')
EXPLANATION += ' RVV-PATCH-MUST.'

def run(ctx, R):
    F = astq.Facts(ctx, 'K0')
    driver.rule_reset(ctx, R, F, 'K0')
    driver.rule_seq(ctx, R, F)
    driver.rule_stateinit(ctx, R, F)
    driver.rule_bind_key(ctx, R, F)
    driver.rule_bind_guard(ctx, R, F)
    driver.rule_flag_prop(ctx, R, F)
    decode.rule_defuse(ctx, R, F)
    aes.rule_fused(ctx, R, F)
    argon.rule_skeleton(ctx, R, F)
    jitcross.rule_v2sym_a64(ctx, R)
    aes.rule_cover(ctx, R, F)
    driver.rule_bind_excl(ctx, R)
    for arch_ in ('x86', 'a64', 'rv64'):
        genreset.rule_gen_reset(ctx, R, arch_)
    dsinit.rule_initsel(ctx, R, F)   # the compiled SuperscalarHash / init loop is regenerated at every initCache: no code of an earlier key survives a re-key
    a64patch.rule_patchlen(ctx, R)
    rvvpatch.rule_patch_must(ctx, R)
    genreset.rule_ctor_init(ctx, R, 'x86')
    genreset.rule_ctor_init(ctx, R, 'a64')
    genreset.rule_ctor_init(ctx, R, 'rv64')
    vmcfg.rule_initorder(ctx, R, F)
