"""Rules about the hash drivers in src/randomx.cpp and the VmBase helpers they call.

DRV-FPENV, DRV-RESET, DRV-REFILL, DRV-SEQ, DRV-SIB, BIND-KEY, BIND-GUARD, FLAG-PROP, VM-STATEINIT, API-IO
(DESIGN.md section 4: C01, C02, C03, C06, C13, C17)."""
import re

import astq
from astq import CFG, calls, loc, show, strip_all, val, walk
from core import AnalysisBroken
from rules.common import strip_targs

DRIVERS = ['randomx_calculate_hash', 'randomx_calculate_hash_first', 'randomx_calculate_hash_next', 'randomx_calculate_hash_last']
SAVE = {'_mm_getcsr': 'ret', 'fegetenv': 'arg', 'feholdexcept': 'arg'}     # feholdexcept stores the environment like fegetenv (and then clears the flags)
# feupdateenv installs the saved environment and then RAISES the exceptions that were pending: the caller's status flags change, so it is not a restore
NOT_A_RESTORE = {'feupdateenv'}
RESTORE = {'_mm_setcsr', 'fesetenv'}
RANDOMX_CPP = 'src/randomx.cpp'


def is_call(c, name):
    return c.get('name') == name


def ref_id(n):
    n = strip_all(n)
    if n['k'] == 'Un' and n['op'] == '&':
        n = strip_all(n['e'])
    if n['k'] == 'Ref':
        return n.get('id') or n.get('q')
    return None


# ---------------------------------------------------------------------------------------------
def rule_fpenv(ctx, R, F, config):
    """save dominates / restore post-dominates everything in randomx_calculate_hash"""
    R.rule('DRV-FPENV', 'in randomx_calculate_hash the FP-environment save dominates every other call, the restore of the saved value '
           'post-dominates every other call and the function entry, and the saved variable is not written in between', min_instances=4)
    f = F.func('randomx_calculate_hash', unit=RANDOMX_CPP)
    R.saw(fn=f['q'] + '@' + config, unit=RANDOMX_CPP, config=config)
    g = CFG(f)
    saves = g.find_calls(lambda c: c.get('name') in SAVE)
    restores = g.find_calls(lambda c: c.get('name') in RESTORE)
    inst = 'randomx_calculate_hash[%s]' % config
    if len(saves) != 1:
        R.violation(inst + ' save', '%s:%d' % (f['file'], f['line']), expected='exactly one FP environment save (_mm_getcsr / fegetenv)', found='%d' % len(saves))
        return
    if len(restores) != 1:
        upd = g.find_calls(lambda c: c.get('name') in NOT_A_RESTORE)
        R.violation(inst + ' restore', '%s:%d' % (f['file'], f['line']), expected='exactly one FP environment restore (_mm_setcsr / fesetenv)',
                    found='%d%s' % (len(restores), '; %s re-raises the pending exceptions after installing the saved environment, the caller gets its status flags back changed' % upd[0][1]['name'] if upd else ''))
        return
    sn, sc = saves[0]
    rn, rc = restores[0]
    # which variable holds the state
    if SAVE[sc['name']] == 'ret':
        st = g.nodes[sn]['stmt']
        var = None
        if st['k'] == 'Decl':
            for d in st['d']:
                if 'init' in d and any(c is sc for c in calls(d['init'])):
                    var = d['id']
                    const_var = d.get('const')
        R.check(var is not None, inst + ' save-target', loc(sc, f), expected='result of the save call initialises a local variable', found=show(st))
    else:
        var = ref_id(sc['a'][0])
        R.check(var is not None, inst + ' save-target', loc(sc, f), expected='fegetenv(&local)', found=show(sc))
    rv = ref_id(rc['a'][0]) if rc.get('a') else None
    R.check(rv is not None and rv == var, inst + ' restore-arg', loc(rc, f), expected='restore call receives the saved variable', found=show(rc))
    others = [(n, c) for n, c in g.find_calls(lambda c: True) if c is not sc and c is not rc]
    bad_dom = [show(c)[:60] for n, c in others if not (g.dominates(sn, n) and n != sn)]
    R.check(not bad_dom, inst + ' save-dominates', loc(sc, f), expected='save dominates all %d other calls' % len(others), found=bad_dom or 'all dominated')
    bad_pdom = [show(c)[:60] for n, c in others if not (g.postdominates(rn, n) and n != rn)]
    R.check(not bad_pdom, inst + ' restore-postdominates', loc(rc, f), expected='restore post-dominates all %d other calls' % len(others), found=bad_pdom or 'all post-dominated')
    R.check(g.postdominates(rn, g.entry), inst + ' restore-on-every-exit', loc(rc, f), expected='every path from entry to return passes the restore', found='post-dominates entry: %s' % g.postdominates(rn, g.entry))
    # no write to the saved variable between save and restore
    writes = []
    for x in walk(f['body']):
        if x['k'] in ('Assign', 'CAssign') and ref_id(x['l']) == var:
            writes.append(loc(x, f))
        if x['k'] == 'Un' and x['op'] in ('++', '--') and ref_id(x['e']) == var:
            writes.append(loc(x, f))
        if x['k'] == 'Call' and x is not sc and x is not rc:
            for a in x.get('a', []):
                aa = strip_all(a)
                if aa['k'] == 'Un' and aa['op'] == '&' and ref_id(aa) == var:
                    writes.append(loc(x, f))
    R.check(not writes, inst + ' saved-var-unmodified', loc(sc, f), expected='saved state variable is written only by the save', found=writes or 'no other write')


def _helper_summaries(F):
    """For functions of src/randomx.cpp that are not API drivers: does the function (transitively) call run(),
    and is every such run dominated by a reset inside the function; does a reset post-dominate its entry."""
    unit = F.unit(RANDOMX_CPP)
    local = {f['q']: f for f in unit['functions'] if f['file'].endswith('randomx.cpp') and f['q'] not in DRIVERS}
    summ = {}

    def summarize(q, stack=()):
        if q in summ:
            return summ[q]
        if q in stack:
            return dict(may_run=False, unguarded_run=False, must_reset=False)
        f = local[q]
        g = CFG(f)
        runs = [n for n, c in g.find_calls(lambda c: c.get('fn') == 'randomx_vm::run')]
        resets = [n for n, c in g.find_calls(lambda c: c.get('fn') == 'randomx_vm::resetRoundingMode', must=True)]
        for n, c in g.find_calls(lambda c: c.get('fn') in local):
            sub = summarize(c['fn'], stack + (q,))
            if sub['may_run']:
                if sub['unguarded_run']:
                    runs.append(n)
            if sub['must_reset']:
                resets.append(n)
        unguarded = any(not any(g.dominates(r, n) and r != n for r in resets) for n in runs)
        may_run = bool(runs) or any(summarize(c['fn'], stack + (q,))['may_run'] for n, c in g.find_calls(lambda c: c.get('fn') in local))
        must_reset = any(g.postdominates(r, g.entry) for r in resets)
        summ[q] = dict(may_run=may_run, unguarded_run=unguarded, must_reset=must_reset)
        return summ[q]
    for q in local:
        summarize(q)
    return summ


def rule_reset(ctx, R, F, config='K0'):
    R.rule('DRV-RESET', 'in every hash driver a call of resetRoundingMode() on the machine dominates every call of run() (helper functions of randomx.cpp are summarised: '
           'a helper that runs programs without resetting first counts as a run site); the reset itself unconditionally writes the fixed default word', min_instances=3)
    summ = _helper_summaries(F)
    total_runs = 0
    for name in DRIVERS:
        if not F.has_func(name):
            raise AnalysisBroken('driver %s missing' % name)
        f = F.func(name, unit=RANDOMX_CPP)
        g = CFG(f)
        R.saw(fn=f['q'], unit=RANDOMX_CPP, config=config)
        runs = g.find_calls(lambda c: c.get('fn') == 'randomx_vm::run' or (c.get('fn') in summ and summ[c['fn']]['unguarded_run']))
        resets = g.find_calls(lambda c: c.get('fn') == 'randomx_vm::resetRoundingMode' or (c.get('fn') in summ and summ[c['fn']]['must_reset']), must=True)
        total_runs += len(runs)
        for idx, (n, c) in enumerate(runs):
            okr = [rn for rn, rc in resets if g.dominates(rn, n) and rn != n]
            R.check(bool(okr), '%s: run site #%d (%s)' % (name, idx, c.get('name')), loc(c, f), expected='dominated by machine->resetRoundingMode()',
                    found='dominating resets: %d of %d' % (len(okr), len(resets)))
    if total_runs < 3:
        raise AnalysisBroken('DRV-RESET: only %d program-run sites found in the drivers' % total_runs)
    # the reset itself must set the fixed default word on every path
    f = F.func('randomx_vm::resetRoundingMode')
    g = CFG(f)
    want = ('_mm_setcsr', 'rx_reset_float_state')
    cs = g.find_calls(lambda c: c.get('name') in want, must=True)
    okc = any(g.postdominates(n, g.entry) for n, c in cs)
    R.check(okc, 'resetRoundingMode is unconditional', '%s:%d' % (f['file'], f['line']), expected='rx_reset_float_state() on every path', found=[show(c) for n, c in cs] or [c.get('name') for c in calls(f['body'])])
    other = [c.get('name') for c in calls(f['body']) if c.get('name') not in want]
    R.check(not other, 'resetRoundingMode reads no FP state', '%s:%d' % (f['file'], f['line']), expected='no other call', found=other or 'none')


CSR_CTRL = 0xFFC0        # MXCSR bits that influence results: DAZ (6), exception masks (7-12), RC (13-14), FTZ (15); bits 0-5 are sticky status flags
CSR_DEFAULT = 0x9FC0     # FTZ, DAZ, all exceptions masked, round to nearest


def csr_after(F, f, csr, env=None):
    """abstract MXCSR (known bits) after executing f when it is entered with MXCSR = csr: every _mm_setcsr(e) assigns the known-bits value of e,
    _mm_getcsr() reads the current abstract value (so read-modify-write sequences keep the unknown bits unknown)"""
    import domains
    state = {'csr': csr}
    order = []
    for x in walk(f['body']):
        if x['k'] == 'Call' and x.get('name') == '_mm_setcsr':
            order.append(x)
    if any(x['k'] in ('If', 'For', 'While', 'Do', 'Switch') for x in walk(f['body'])):
        raise AnalysisBroken('%s: control flow in an FP-state helper is not supported' % f['q'])

    class Ev(domains.KBEval):
        def call(self, n):
            if n.get('name') == '_mm_getcsr':
                return state['csr']
            return domains.KBEval.call(self, n)
    for c in order:
        ev = Ev(F, dict(env or {}))
        v = ev.ev(c['a'][0])
        state['csr'] = v if v.w == 32 else v.resize(32, False)
    return state['csr'], len(order)


def reset_word(F):
    import domains
    f = F.func('rx_reset_float_state')
    kb, n = csr_after(F, f, domains.KB.top(32))
    return f, kb, n


def rule_resetword(ctx, R, F):
    """FP-RESETWORD: the control words written depend on constants and two mode bits only."""
    import domains
    R.rule('FP-RESETWORD', 'whatever MXCSR the caller had, rx_reset_float_state leaves FTZ, DAZ, all six exception masks set and RC = nearest (0x9FC0 on bits 6-15); rx_set_rounding_mode changes bits 13-14 to its argument and nothing else, '
           'independently of the previous rounding bits (abstract interpretation of the MXCSR reads and writes in the known-bits domain)', min_instances=3)
    f, kb, n = reset_word(F)
    ctrl_known = (kb.ones | kb.zeros) & CSR_CTRL
    R.check(n >= 1 and ctrl_known == CSR_CTRL and (kb.ones & CSR_CTRL) == CSR_DEFAULT, 'rx_reset_float_state', '%s:%d' % (f['file'], f['line']),
            expected='MXCSR bits 6-15 = %#x for every MXCSR on entry' % CSR_DEFAULT, found='%s (bits still depending on the caller: %#x)' % (kb.hexpat(), CSR_CTRL & ~ctrl_known))
    g = F.func('rx_set_rounding_mode')
    pid = g['params'][0]['id']
    entry = domains.KB(32, (~CSR_DEFAULT) & CSR_CTRL & ~(3 << 13), CSR_DEFAULT)     # state established by the reset, any rounding bits, any flags
    for mode in range(4):
        kb2, n2 = csr_after(F, g, entry, {pid: domains.KB.const(32, mode)})
        known = (kb2.ones | kb2.zeros) & CSR_CTRL
        R.check(n2 >= 1 and known == CSR_CTRL and (kb2.ones & CSR_CTRL) == (CSR_DEFAULT | (mode << 13)), 'rx_set_rounding_mode(%d)' % mode, '%s:%d' % (g['file'], g['line']),
                expected='MXCSR bits 6-15 = %#x whatever the previous rounding bits' % (CSR_DEFAULT | (mode << 13)), found=kb2.hexpat())
    # every caller in the library passes a 2-bit value
    ncall = 0
    for h in F.all_funcs():
        for c in calls(h['body']) if h.get('body') else []:
            if c.get('name') == 'rx_set_rounding_mode':
                ncall += 1
                kbm = domains.KBEval(F, {}).ev(c['a'][0])
                R.check(kbm.umax() <= 3, '%s: mode argument' % h['q'], loc(c, h), expected='argument in 0..3', found='max %d (%s)' % (kbm.umax(), show(c['a'][0])))
    if ncall < 1:
        raise AnalysisBroken('no caller of rx_set_rounding_mode found')
    # rx_get_rounding_mode returns bits 13-14 of the current word
    gg = F.func('rx_get_rounding_mode') if F.has_func('rx_get_rounding_mode') else None
    if gg is not None:
        for mode in range(4):
            st = domains.KB.const(32, CSR_DEFAULT | (mode << 13))

            class Ev(domains.KBEval):
                def call(self, n):
                    if n.get('name') == '_mm_getcsr':
                        return st
                    return domains.KBEval.call(self, n)
            r = Ev(F, {}).run_body(gg)
            R.check(r is not None and r.value() == mode, 'rx_get_rounding_mode with RC = %d' % mode, '%s:%d' % (gg['file'], gg['line']), expected=mode, found=r.hexpat() if r is not None else None)


def rule_noleak(ctx, R):
    """FP-NOLEAK: nothing else on the library's call graph writes the FP control state."""
    import irq
    R.rule('FP-NOLEAK', 'the only functions that write the FP control/status word (ldmxcsr, fesetenv, fesetround, feclearexcept ...) are '
           'randomx_calculate_hash (restore), rx_reset_float_state / rx_set_rounding_mode (inlined into resetRoundingMode and exe_CFROUND); '
           'hand-written asm writes MXCSR only in the prologue/epilogue pair and the CFROUND template', min_instances=3)
    M = irq.Module(ctx.ir())
    allowed = {'randomx_calculate_hash', '_ZN10randomx_vm17resetRoundingModeEv'}
    writers = ('llvm.x86.sse.ldmxcsr', 'fesetenv', 'fesetround', 'feclearexcept', 'feraiseexcept', 'feholdexcept', 'feupdateenv', 'fesetexceptflag', '_controlfp')
    seen = 0
    for f in M.defined():
        for i in M.insts(f):
            if i.get('callee') in writers:
                seen += 1
                ok = f['name'] in allowed or 'exe_CFROUND' in f['dem'] or 'executeInstruction' in f['dem'] or f['dem'].startswith('rx_set_rounding_mode') or f['dem'].startswith('rx_reset_float_state')
                R.check(ok, '%s in %s' % (i['callee'], f['dem']), i.get('loc', '?'), expected='FP control writes only in the save/restore, reset and CFROUND sites', found=f['dem'])
    if seen < 3:
        raise AnalysisBroken('FP-NOLEAK found only %d FP-control writes in the IR; expected restore, reset and CFROUND' % seen)
    # asm: ldmxcsr only in prologue (load default) and epilogue (none expected); list them
    o = ctx.obj('x86')
    sites = [i for i in o.insns if i[1] in ('ldmxcsr', 'stmxcsr', 'fldcw', 'vldmxcsr')]
    for off, mn, ops, raw in sites:
        inside = None
        for name, so in sorted(o.symbols.items(), key=lambda kv: kv[1]):
            if so <= off:
                inside = name
        R.check(inside is not None and ('prologue' in inside or 'epilogue' in inside), 'asm %s at +%#x (%s)' % (mn, off, inside), 'src/jit_compiler_x86_static.S',
                expected='MXCSR accessed by hand-written code only in randomx_program_prologue / epilogue', found='%s %s in %s' % (mn, ops, inside))


# ---------------------------------------------------------------------------------------------
def seq_of(f, stmt=None, helpers=None, depth=0):
    """Structured call summary of a function body: list of strings and ('loop', trip, [..]) tuples.
    Arguments are normalised with show(fold())."""
    out = []

    def norm(c):
        name = c.get('name')
        args = [astq.showv(a) for a in c.get('a', [])]
        return '%s(%s)' % (name, ', '.join(args))

    def rec(s, acc):
        if s is None or not astq.is_node(s):
            return
        k = s['k']
        if k == 'Compound':
            for x in s['s']:
                rec(x, acc)
        elif k == 'For':
            trip = loop_trip(s)
            inner = []
            rec(s['b'], inner)
            acc.append(('loop', trip, inner))
        elif k in ('While', 'Do', 'ForRange'):
            inner = []
            rec(s['b'], inner)
            acc.append(('loop', None, inner))
        elif k == 'If':
            cv = val(s['c'])
            for c in calls(s['c']):
                acc.append(norm(c))
            if cv is None:
                a1, a2 = [], []
                rec(s['t'], a1)
                rec(s.get('e'), a2)
                acc.append(('if', astq.showv(s['c']), a1, a2))
            elif cv:
                rec(s['t'], acc)
            else:
                rec(s.get('e'), acc)
        elif k in ('Try',):
            rec(s['b'], acc)
        else:
            for c in calls(s):
                if c.get('name') in ('__assert_fail',):
                    continue
                h = helpers.get(c.get('fn')) if helpers else None
                if h is not None and depth < 4:
                    # inline a helper of the same unit: its parameters are replaced by the argument text
                    ren = dict(astq._REN[0] or {})
                    for p_, a_ in zip(h['params'], c.get('a', [])):
                        ren[p_['id']] = astq.showv(a_)
                    with astq.renaming(ren):
                        acc.extend(seq_of(h, helpers=helpers, depth=depth + 1))
                    continue
                acc.append(norm(c))
    rec(stmt or f['body'], out)
    return out


def loop_trip(s):
    """Trip count of `for (T i = a; i < b; ++i)` with folded a, b; else None."""
    init, cond, inc = s.get('init'), s.get('c'), s.get('inc')
    if not (init and cond and inc):
        return None
    if init['k'] != 'Decl' or len(init['d']) < 1:
        return None
    d = init['d'][0]
    a = val(d.get('init')) if d.get('init') else None
    c = strip_all(cond)
    if c['k'] != 'Bin' or c['op'] not in ('<', '!='):
        return None
    if ref_id(c['l']) != d['id']:
        return None
    b = val(c['r'])
    i = strip_all(inc)
    if not (i['k'] == 'Un' and i['op'] == '++' and ref_id(i['e']) == d['id']):
        return None
    if a is None or b is None:
        return None
    return b - a


def outer_calls(seq):
    """Drop calls that appear only as arguments of a later call (getRegisterFile() inside blake2b(...))."""
    out = []
    for x in seq:
        if isinstance(x, tuple):
            if x[0] == 'loop':
                out.append(('loop', x[1], outer_calls(x[2])))
            else:
                out.append((x[0], x[1], outer_calls(x[2]), outer_calls(x[3])))
        else:
            out.append(x)
    res = []
    for i, x in enumerate(out):
        if isinstance(x, str) and i + 1 < len(out) and isinstance(out[i + 1], str):
            nm = x.split('(')[0]
            if ('.' + nm + '(') in out[i + 1] or (nm + '(') in out[i + 1].split('(', 1)[1]:
                continue
        res.append(x)
    return res


def param_ren(f):
    return {p['id']: 'P%d' % i for i, p in enumerate(f['params'])}


def seed_ren(f):
    """Role-based names: parameters by position, the buffer the first Blake2b writes = SEED."""
    ren = param_ren(f)
    for c in calls(f['body']):
        if c.get('name') == 'randomx_blake2b':
            rid = ref_id(c['a'][0])
            if rid and rid not in ren:
                ren[rid] = 'SEED'
            break
    return ren


def rule_seq(ctx, R, F):
    """DRV-SEQ + DRV-SIB + DRV-REFILL: the drivers are the call sequence of spec chapter 2."""
    R.rule('DRV-SEQ', 'randomx_calculate_hash is exactly: Blake2b-512(input) -> AesGenerator1R fill of the scratchpad -> rounding reset -> '
           '(PROGRAM_COUNT-1) x [run; Blake2b-512(RegisterFile)] -> run -> AesHash1R fingerprint -> Blake2b-256 (spec chapter 2); '
           'first+last and first+next are the same sequence; VmBase helpers pass the whole scratchpad', min_instances=4)
    pcm = F.macro('RANDOMX_PROGRAM_COUNT')
    if pcm is None or not pcm['body'].strip().isdigit():
        raise AnalysisBroken('RANDOMX_PROGRAM_COUNT macro not found')
    pc = int(pcm['body'])
    hs = int(F.macro('RANDOMX_HASH_SIZE')['body'])
    regsize = F.record('randomx::RegisterFile')['size']
    drop = list(SAVE) + list(RESTORE) + ['__assert_fail']
    helpers = {f_['q']: f_ for f_ in F.unit(RANDOMX_CPP)['functions'] if f_['file'].endswith('randomx.cpp') and f_['q'] not in DRIVERS and not f_.get('externC')}

    def seq(name):
        f = F.func(name, unit=RANDOMX_CPP)
        R.saw(fn=f['q'], unit=RANDOMX_CPP, config='K0')
        with astq.renaming(seed_ren(f)):
            s = outer_calls(seq_of(f, helpers=helpers))
        return f, [x for x in s if not (isinstance(x, str) and x.split('(')[0] in drop)]

    def sub(s, a, b):
        out = []
        for x in s:
            if isinstance(x, tuple):
                out.append((x[0], x[1], sub(x[2], a, b)))
            else:
                out.append(x.replace(a, b))
        return out

    # single call: P0 machine, P1 input, P2 inputSize, P3 output; SEED is a local 64-byte buffer
    progs = ['resetRoundingMode()', ('loop', pc - 1, ['run(@)', 'randomx_blake2b(@, 64, P0.getRegisterFile(), %d, nullptr, 0)' % regsize]), 'run(@)']
    f, s = seq('randomx_calculate_hash')
    exp_single = ['randomx_blake2b(SEED, 64, P1, P2, nullptr, 0)', 'initScratchpad(&SEED)'] + sub(progs, '@', '&SEED')[:1] \
        + [('loop', pc - 1, ['run(&SEED)', 'randomx_blake2b(SEED, 64, P0.getRegisterFile(), %d, nullptr, 0)' % regsize]), 'run(&SEED)', 'getFinalResult(P3, %d)' % hs]
    R.eq('randomx_calculate_hash sequence', '%s:%d' % (f['file'], f['line']), exp_single, s)
    # seed buffer really is 64 bytes
    for x in walk(f['body']):
        if x['k'] == 'Decl':
            for d in x['d']:
                for c in calls(f['body']):
                    pass
    T = 'P0->tempHash'
    th = [fl for fl in F.record('randomx_vm')['fields'] if fl['name'] == 'tempHash']
    R.check(bool(th) and th[0].get('arrlen') == 8 and 'unsigned long' in th[0]['ty'], 'randomx_vm::tempHash is 64 bytes', 'src/virtual_machine.hpp', expected='uint64_t[8]', found=th[0]['ty'] if th else None)
    exp_first = ['randomx_blake2b(%s, 64, P1, P2, nullptr, 0)' % T, 'initScratchpad(%s)' % T]
    exp_progs = sub(progs, '@', T)
    exp_next = exp_progs + ['randomx_blake2b(%s, 64, P1, P2, nullptr, 0)' % T, 'hashAndFill(P3, %d, %s)' % (hs, T)]
    exp_last = exp_progs + ['getFinalResult(P1, %d)' % hs]
    got = {}
    for name, exp in (('randomx_calculate_hash_first', exp_first), ('randomx_calculate_hash_next', exp_next), ('randomx_calculate_hash_last', exp_last)):
        f2, s2 = seq(name)
        got[name] = s2
        R.eq(name + ' sequence', '%s:%d' % (f2['file'], f2['line']), exp, s2)
    R.rule('DRV-SIB', 'first;last and first;next reduce to the single-call sequence (modulo where the 64-byte seed lives and the fused fingerprint+refill)', min_instances=2)
    single = sub(sub(s, '&SEED', 'S'), 'SEED', 'S')
    piped = sub(got['randomx_calculate_hash_first'], T, 'S') + sub(sub(got['randomx_calculate_hash_last'], T, 'S'), 'getFinalResult(P1', 'getFinalResult(P3')
    R.eq('first;last == single', 'src/randomx.cpp', single, piped)
    nxt = sub(got['randomx_calculate_hash_next'], T, 'S')
    exp_nxt = single[2:-1] + ['randomx_blake2b(S, 64, P1, P2, nullptr, 0)', 'hashAndFill(P3, %d, S)' % hs]
    R.eq('next == (reset; programs; seed(next input); fingerprint+refill)', 'src/randomx.cpp', exp_nxt, nxt)

    # VmBase helpers, every instantiation
    R.rule('DRV-REFILL', 'VmBase::initScratchpad / getFinalResult / hashAndFill / generateProgram pass the whole scratchpad (ScratchpadSize) and the whole '
           'program buffer (sizeof(program)) to the AES functions of matching softAes flavour, then Blake2b over the whole 256-byte register file', min_instances=16)
    sps = F.const('randomx::ScratchpadSize')
    prog_size = F.record('randomx::Program')['size']
    R.eq('sizeof(RegisterFile)', 'src/common.hpp', 256, regsize)
    for f in F.funcs(r'^randomx::VmBase<.*>::(initScratchpad|getFinalResult|hashAndFill|generateProgram)$'):
        R.saw(fn=f['q'], unit=f['_unit'])
        soft = f['q'].split('>::')[0].rsplit(',', 1)[1].strip()
        with astq.renaming(param_ren(f)):
            sq = outer_calls(seq_of(f))
        m = f['name']
        tv = 'true' if soft == 'true' else 'false'
        if m == 'initScratchpad':
            exp = ['fillAes1Rx4(P0, %d, this->scratchpad)' % sps]
        elif m == 'getFinalResult':
            exp = ['hashAes1Rx4(this->scratchpad, %d, &this->reg.a)' % sps, 'randomx_blake2b(P0, P1, &this->reg, %d, nullptr, 0)' % regsize]
        elif m == 'hashAndFill':
            exp = ['hashAndFillAes1Rx4(this.getScratchpad(), %d, &this->reg.a, P2)' % sps, 'randomx_blake2b(P0, P1, &this->reg, %d, nullptr, 0)' % regsize]
        else:
            exp = ['fillAes4Rx4(P0, %d, &this->program)' % prog_size]
        R.eq('%s' % f['q'], '%s:%d' % (f['file'], f['line']), exp, sq)
        for c in calls(f['body']):
            if c.get('name', '').endswith('Rx4'):
                R.check(c['fn'].endswith('<%s>' % tv), '%s AES flavour' % f['q'], loc(c, f), expected='<%s>' % tv, found=c['fn'])
    g = F.func('randomx_vm::getScratchpad')
    rets = [x for x in walk(g['body']) if x['k'] == 'Return']
    R.check(len(rets) == 1 and show(rets[0]['e']) == 'this->scratchpad', 'randomx_vm::getScratchpad', '%s:%d' % (g['file'], g['line']), expected='returns scratchpad', found=show(rets[0]['e']) if rets else None)


def rule_api_io(ctx, R, F):
    R.rule('API-IO', 'the hashing API passes input/inputSize only to Blake2b as (in, inlen) and writes output only through getFinalResult/hashAndFill with RANDOMX_HASH_SIZE', min_instances=4)
    for name in DRIVERS:
        f = F.func(name, unit=RANDOMX_CPP)
        pnames = {p['name']: p['id'] for p in f['params']}
        for pin, psz in (('input', 'inputSize'), ('nextInput', 'nextInputSize')):
            if pin not in pnames:
                continue
            uses = [x for x in walk(f['body']) if x['k'] == 'Ref' and x.get('id') == pnames[pin]]
            okc = 0
            for c in calls(f['body']):
                if c.get('name') == 'randomx_blake2b' and ref_id(c['a'][2]) == pnames[pin] and ref_id(c['a'][3]) == pnames[psz]:
                    okc += 1
            asserts = 0
            for x in walk(f['body']):
                pass
            R.check(okc == 1 and len(uses) == okc, '%s: %s' % (name, pin), '%s:%d' % (f['file'], f['line']), expected='%s used once, as blake2b(in=%s, inlen=%s)' % (pin, pin, psz),
                    found='%d uses, %d as blake2b input' % (len(uses), okc))
        if 'output' in pnames:
            uses = [x for x in walk(f['body']) if x['k'] == 'Ref' and x.get('id') == pnames['output']]
            good = [c for c in calls(f['body']) if c.get('name') in ('getFinalResult', 'hashAndFill') and ref_id(c['a'][0]) == pnames['output'] and val(c['a'][1]) == 32]
            R.check(len(good) == 1 and len(uses) == 1, '%s: output' % name, '%s:%d' % (f['file'], f['line']), expected='output used once with size 32', found='%d uses, %d good' % (len(uses), len(good)))


# ---------------------------------------------------------------------------------------------
def rule_bind_key(ctx, R, F):
    R.rule('BIND-KEY', 'every machine->setCache(c) in randomx.cpp is followed (post-dominated) by machine->cacheKey = c->cacheKey; '
           'randomx_init_cache re-initialises iff key differs or cache uninitialised and records the key after initialising', min_instances=3)
    import decoder as _dec
    from rules.common import ptr_eval, normal_flow
    n = 0
    for name in ('randomx_create_vm', 'randomx_vm_set_cache'):
        f = F.func(name, unit=RANDOMX_CPP)
        R.saw(fn=f['q'], unit=RANDOMX_CPP)
        # non-throwing flow; pointer parameters are non-null or null consistently along a path, a VM local that was just constructed is non-null
        ptr_ids = [p_['id'] for p_ in f['params'] if '*' in (p_.get('ty') or '')]
        vm_locals = [d_['id'] for x in walk(f['body']) if x['k'] == 'Decl' for d_ in x['d'] if 'randomx_vm' in (d_.get('ty') or '') and '*' in (d_.get('ty') or '')]
        paths = _dec.paths(normal_flow(f['body']))
        import itertools
        sites = {}
        for combo in itertools.product((False, True), repeat=len(ptr_ids)):
            asg = dict(zip(ptr_ids, combo))
            for v_ in vm_locals:
                asg[v_] = True
            for p_ in paths:
                if any(ptr_eval(c_, asg) not in (None, t_) for c_, t_ in p_.conds):
                    continue
                evs = [e_ for e_ in p_.events if not isinstance(e_, tuple)]
                binds = [(c, show(c.get('this')), show(c['a'][0])) for e_ in evs for c in calls(e_) if c.get('fn') == 'randomx_vm::setCache']
                for c, vm, cache in binds:
                    key = (c.get('ln'), vm, cache)
                    copied = any(c2.get('opcall') == '=' and show(c2.get('this')) == '%s->cacheKey' % vm and show(c2['a'][0]) == '%s->cacheKey' % cache for e_ in evs for c2 in calls(e_))
                    sites.setdefault(key, []).append(copied)
        for (ln, vm, cache), oks in sorted(sites.items(), key=str):
            n += 1
            R.check(all(oks), '%s: setCache(%s)' % (name, cache), '%s:%s' % (f['file'], ln), expected='%s->cacheKey = %s->cacheKey on every path that binds the cache' % (vm, cache),
                    found='recorded on every path' if all(oks) else 'a path binds the cache without recording its key')
    if n < 2:
        raise AnalysisBroken('BIND-KEY: fewer than 2 setCache call sites in randomx.cpp')
    f = F.func('randomx_init_cache', unit=RANDOMX_CPP)
    R.saw(fn=f['q'])
    g = CFG(f)
    inits = g.find_calls(lambda c: 'callee' in c and 'initialize' in show(c['callee']))
    ifs = [x for x in walk(f['body']) if x['k'] == 'If']
    okc = False
    detail = None
    if len(inits) == 1 and len(ifs) == 1:
        c = ifs[0]['c']
        s = show(c)
        d = strip_all(c)
        okc = d['k'] == 'Bin' and d['op'] == '||' and 'operator!=' in show(d['l']) and 'cacheKey' in show(d['l']) and show(d['r']).replace(' ', '') in ('!cache.isInitialized()',)
        detail = s
        body = show(ifs[0]['t']) if False else None
        # assignment of the key after initialize inside the same block
        then = ifs[0]['t']
        order = []
        for x in walk(then):
            if x['k'] == 'Call' and 'callee' in x and 'initialize' in show(x['callee']):
                order.append('init')
            if x['k'] == 'Call' and x.get('opcall') == '=' and 'cache->cacheKey' in show(x.get('this')):
                order.append('key')
        okc = okc and order == ['init', 'key'] and ifs[0].get('e') is None
        detail = '%s ; then-block order %s' % (s, order)
    R.check(okc, 'randomx_init_cache guard', '%s:%d' % (f['file'], f['line']), expected='if (key differs || !isInitialized()) { initialize; cacheKey = key }', found=detail)
    # the key string is built from (key, keySize)
    asg = [c for c in calls(f['body']) if c.get('name') == 'assign']
    pid = [p_['id'] for p_ in f['params']]
    R.check(len(asg) == 1 and [ref_id(a) for a in asg[0]['a']] == pid[1:3], 'randomx_init_cache key copy', '%s:%d' % (f['file'], f['line']),
            expected='cacheKey.assign((const char*)key, keySize)', found=[show(c) for c in asg])
    # isInitialized reflects programs generated by the last initialisation
    f = F.func('randomx_cache::isInitialized')
    rets = [x for x in walk(f['body']) if x['k'] == 'Return']
    R.check(len(rets) == 1 and 'programs' in show(rets[0]['e']) and 'getSize()' in show(rets[0]['e']), 'randomx_cache::isInitialized', '%s:%d' % (f['file'], f['line']),
            expected='programs[0].getSize() != 0', found=show(rets[0]['e']) if rets else None)


def getter_field(F, call):
    """If call is a getter whose body is `return this->x.y;` give the returned member path."""
    fn = call.get('fn')
    if not fn or not F.has_func(fn):
        return None
    f = F.func(fn)
    rets = [x for x in walk(f['body']) if x['k'] == 'Return']
    if len(rets) != 1 or len(calls(f['body'])) != 0:
        return None
    s = show(rets[0]['e'])
    return s if s.startswith('this->') else None


def rule_bind_guard(ctx, R, F):
    R.rule('BIND-GUARD', 'randomx_vm_set_cache may skip setCache only if every value a setCache override captures from its argument is compared: '
           'pointers individually, key-determined content through the key comparison', min_instances=4)
    f = F.func('randomx_vm_set_cache', unit=RANDOMX_CPP)
    R.saw(fn=f['q'], unit=RANDOMX_CPP)
    import decoder as _dec
    uncond = [c for c in calls(f['body']) if c.get('fn') == 'randomx_vm::setCache']
    if not uncond:
        raise AnalysisBroken('randomx_vm_set_cache: no call of setCache found')

    def side(x):
        x = strip_all(x)
        if x['k'] == 'Call':
            gf = getter_field(F, x)
            return gf.replace('this->', 'VM->') if gf else show(x)
        return show(x).replace('machine->', 'VM->')

    def known_equal(c, taken, out):
        """equalities that are known to hold when condition c evaluates to `taken` (the same whether written as a != b || ... with a fall-through or as a == b && ... with an early return)"""
        c = strip_all(c)
        if c['k'] == 'Un' and c.get('op') == '!':
            return known_equal(c['e'], not taken, out)
        if c['k'] == 'Bin' and c['op'] == '||':
            if not taken:
                known_equal(c['l'], False, out)
                known_equal(c['r'], False, out)
            return
        if c['k'] == 'Bin' and c['op'] == '&&':
            if taken:
                known_equal(c['l'], True, out)
                known_equal(c['r'], True, out)
            return
        l = r = None
        op = None
        if c['k'] == 'Bin' and c['op'] in ('!=', '=='):
            l, r, op = c['l'], c['r'], c['op']
        elif c['k'] == 'Call' and c.get('name') in ('operator!=', 'operator=='):
            l, r, op = c['a'][0], c['a'][1], c['name'][-2:]
        if l is None:
            return
        if (op == '==') == taken:
            out.add((side(l), side(r)))
            out.add((side(r), side(l)))
    skip_paths = []
    for p_ in _dec.paths(f['body']):
        if not any(c.get('fn') == 'randomx_vm::setCache' for e_ in p_.events if not isinstance(e_, tuple) for c in calls(e_)):
            skip_paths.append(p_)
    if not skip_paths:
        R.ok('randomx_vm_set_cache', '%s:%d' % (f['file'], f['line']), detail='setCache is called on every path (no shortcut to justify)')
        return
    compared = None
    for p_ in skip_paths:
        eqs = set()
        for c_, t_ in p_.conds:
            known_equal(c_, t_, eqs)
        compared = eqs if compared is None else (compared & eqs)
    compared = compared or set()
    key_compared = ('VM->cacheKey', 'cache->cacheKey') in compared
    seen = 0
    for sc in F.funcs(r'::setCache$'):
        if not sc.get('body') or not list(walk(sc['body'])) or sc['body'].get('s') == []:
            continue
        R.saw(fn=sc['q'], unit=sc['_unit'])
        pid = sc['params'][0]['id']
        pname = sc['params'][0]['name']
        for x in walk(sc['body']):
            if x['k'] == 'Assign':
                rhs = strip_all(x['r'])
                refs = [y for y in walk(rhs) if y['k'] == 'Ref' and y.get('id') == pid]
                if not refs:
                    continue
                seen += 1
                lhs = show(x['l']).replace('this->', 'VM->')
                rs = show(rhs).replace(pname, 'cache')
                is_ptr = x.get('ty', '').endswith('*')
                inst = '%s: %s = %s' % (strip_targs(sc['q']), lhs, rs)
                if is_ptr:
                    R.check((lhs, rs) in compared, inst, loc(x, sc), expected='guard compares %s with %s' % (lhs, rs), found=sorted(set(' != '.join(c) for c in compared)))
                else:
                    R.check(key_compared, inst, loc(x, sc), expected='value capture covered by key comparison', found='key compared: %s' % key_compared)
            if x['k'] == 'Call' and x.get('fn') != sc['q']:
                for a in x.get('a', []):
                    aa = strip_all(a)
                    if any(y['k'] == 'Ref' and y.get('id') == pid for y in walk(aa)):
                        seen += 1
                        inst = '%s: %s(...%s...)' % (strip_targs(sc['q']), x.get('name'), show(aa).replace(pname, 'cache'))
                        R.check(key_compared, inst, loc(x, sc), expected='content capture (key-determined) covered by the key comparison', found='key compared: %s' % key_compared)
    if seen < 4:
        raise AnalysisBroken('BIND-GUARD: only %d captures found in setCache overrides' % seen)


def rule_flag_prop(ctx, R, F):
    R.rule('FLAG-PROP', 'every VM class that owns a JitCompiler by value overrides setFlagV2/clearFlagV2, calls the base and then compiler.setFlags(getFlags()); '
           'its constructor passes the flags to the compiler; the compiler stores them in the field its generators test', min_instances=8)
    owners = [r for r in F.records(r'Vm<') if any(re.search(r'JitCompiler\w*$', fld['ty']) for fld in r['fields'])]
    if not owners:
        raise AnalysisBroken('no VM class with a by-value JitCompiler member found')
    for r in owners:
        fld = [x['name'] for x in r['fields'] if re.search(r'JitCompiler\w*$', x['ty'])][0]
        for m in ('setFlagV2', 'clearFlagV2'):
            q = '%s::%s' % (r['q'], m)
            if not F.has_func(q):
                R.violation('%s overrides %s' % (strip_targs(r['q']), m), '%s:%d' % (r['file'], r['line']), expected='override present', found='missing')
                continue
            f = F.func(q)
            R.saw(fn=q, unit=f['_unit'])
            cs = calls(f['body'])
            names = [c.get('fn') for c in cs]
            base_i = [i for i, c in enumerate(cs) if c.get('fn') == 'randomx_vm::' + m]
            set_i = [i for i, c in enumerate(cs) if c.get('name') == 'setFlags' and show(c.get('this')) == 'this->' + fld
                     and astq.strip_all(c['a'][0])['k'] == 'Call' and astq.strip_all(c['a'][0]).get('fn') == 'randomx_vm::getFlags']
            R.check(bool(base_i) and bool(set_i) and base_i[0] < set_i[-1], '%s::%s' % (r['q'], m), '%s:%d' % (f['file'], f['line']),
                    expected='randomx_vm::%s(); %s.setFlags(getFlags())' % (m, fld), found=[show(c) for c in cs])
        ctors = F.funcs('^' + re.escape(r['q']) + '::' + re.escape(r['q'].split('::')[-1].split('<')[0]) + '$')
        ctors = [c for c in ctors if c.get('kind') == 'ctor']
        for c in ctors:
            cs = [x for x in calls(c['body']) if x.get('name') == 'setFlags' and show(x.get('this')) == 'this->' + fld]
            okc = bool(cs) and ref_id(cs[-1]['a'][0]) == c['params'][0]['id']
            R.check(okc, '%s constructor' % r['q'], '%s:%d' % (c['file'], c['line']), expected='%s.setFlags(flags)' % fld, found=[show(x) for x in cs])
    # base class flag mutators really set / clear the V2 bit
    f = F.func('randomx_vm::setFlagV2')
    R.check('RANDOMX_FLAG_V2' in show(f['body']['s'][0]) and '|=' in show(f['body']['s'][0]), 'randomx_vm::setFlagV2', '%s:%d' % (f['file'], f['line']),
            expected='vmFlags |= RANDOMX_FLAG_V2', found=show(f['body']['s'][0]))


def rule_stateinit(ctx, R, F):
    R.rule('VM-STATEINIT', 'randomx_vm::initialize assigns every field of ProgramConfiguration, ma, mx, a0-a3 and datasetOffset on every path; '
           'integer registers start at zero; execute() stores r, f, e over their full ranges', min_instances=20)
    f = F.func('randomx_vm::initialize')
    R.saw(fn=f['q'], unit=f['_unit'])
    g = CFG(f)
    assigned = {}
    for node in g.nodes:
        st = node['stmt']
        if st is None or node['kind'] != 'stmt':
            continue
        for x in walk(st):
            tgt = None
            if x['k'] == 'Assign':
                tgt = show(x['l'])
            elif x['k'] == 'Call' and x.get('name') in ('store64', 'store32'):
                a0 = strip_all(x['a'][0])
                if a0['k'] == 'Un' and a0['op'] == '&':
                    tgt = show(a0['e'])
            if tgt and g.postdominates(node['id'], g.entry) or (tgt and g.dominates(node['id'], g.exit)):
                assigned[tgt] = loc(x, f)
    exp = []
    pc = F.record('randomx::ProgramConfiguration')
    for fld in pc['fields']:
        if 'arrlen' in fld:
            exp += ['this->config.%s[%d]' % (fld['name'], i) for i in range(fld['arrlen'])]
        else:
            exp.append('this->config.' + fld['name'])
    mr = F.record('randomx::MemoryRegisters')
    for fld in mr['fields']:
        if not fld['ty'].endswith('*'):
            exp.append('this->mem.' + fld['name'])
    rf = F.record('randomx::RegisterFile')
    fpu = F.record('randomx::fpu_reg_t')
    for fld in rf['fields']:
        if fld['name'] == 'a':
            for i in range(fld['arrlen']):
                for sub in fpu['fields']:
                    exp.append('this->reg.a[%d].%s' % (i, sub['name']))
    exp.append('this->datasetOffset')
    for e in exp:
        R.check(e in assigned, 'initialize assigns ' + e.replace('this->', ''), assigned.get(e, '%s:%d' % (f['file'], f['line'])), expected='assigned on every path', found='assigned' if e in assigned else 'NOT assigned')
    # integer registers start at zero in the interpreter
    nrf = F.record('randomx::NativeRegisterFile')
    rfld = [x for x in nrf['fields'] if x['name'] == 'r'][0]
    init = rfld.get('init')
    zero = init is not None and init['k'] == 'InitList' and all(val(e) == 0 for e in init['e']) and (init.get('filler') is not None or len(init['e']) == rfld['arrlen'])
    R.check(zero, 'NativeRegisterFile::r = {0}', '%s:%d' % (nrf['file'], nrf['line']), expected='zero-initialised r[8]', found=show(init) if init else None)
    # final stores over full ranges in InterpretedVm::execute
    for ex in F.funcs(r'^randomx::InterpretedVm<.*>::execute$'):
        R.saw(fn=ex['q'], unit=ex['_unit'])
        body = ex['body']['s']
        tail = {}
        for s in body:
            if s['k'] == 'For':
                trip = loop_trip(s)
                for c in calls(s['b']):
                    if c.get('name') in ('store64', '_mm_store_pd'):
                        tail[show(c['a'][0])] = trip
        want = {'&this->reg.r[i]': 8, '&this->reg.f[i].lo': 4, '&this->reg.e[i].lo': 4}
        for k_, n_ in want.items():
            R.check(tail.get(k_) == n_, '%s stores %s' % (strip_targs(ex['q']), k_), '%s:%d' % (ex['file'], ex['line']), expected='loop of %d stores' % n_, found=tail.get(k_))


def rule_bind_excl(ctx, R):
    """[BIND-EXCL] randomx_create_vm calls setCache and setDataset on the same object when it is given both; cachePtr and datasetPtr share
    storage (a union in randomx_vm) and both setters may overwrite mem.memory, so in every concrete VM class at most one of the two
    *resolved* virtual setters may write through `this` (light classes bind the cache and ignore the dataset, full-memory classes the reverse)."""
    import irq
    R.rule('BIND-EXCL', 'in the vtable of every concrete VM class at most one of setCache / setDataset writes to the object: a class that binds the cache must ignore setDataset (its datasetPtr aliases cachePtr) and vice versa, '
           'because randomx_create_vm(flags, cache, dataset) calls both', min_instances=16)
    M = irq.Module(ctx.ir())
    n = 0
    for vt in M.vtables():
        dem = vt.get('dem') or vt['name']
        if 'Vm<' not in dem:
            continue
        cls = dem.replace('vtable for ', '')
        setters = {}
        for s in vt['slots']:
            f = M.fn.get(s) if s else None
            if f is None:
                continue
            m = re.search(r'::(setCache|setDataset)\(', f['dem'])
            if m:
                setters[m.group(1)] = f
        if len(setters) != 2:
            continue
        n += 1
        writes = {}
        for k, f in setters.items():
            w = []
            if f['defined']:
                for i, addr, kind in M.write_sites(f):
                    roots = M.roots(f, addr)
                    if any(r[0] == 'arg' and r[1] == 0 for r in roots) or any(r[0] == 'a' and r[1] == 0 for r in roots):
                        w.append(kind)
                # calls that receive `this` (e.g. the JIT compiler member) count as writes to the object
                for i in M.insts(f):
                    if i['op'] in ('call', 'invoke') and not (i.get('callee') or '').startswith('llvm.'):
                        for o in i['ops']:
                            if any((r[0] in ('arg', 'a')) and r[1] == 0 for r in M.roots(f, o)):
                                w.append('call %s' % (M.fn[i['callee']]['dem'][:40] if i.get('callee') in M.fn else 'indirect'))
                                break
            writes[k] = w
        both = bool(writes['setCache']) and bool(writes['setDataset'])
        light = 'Light' in cls
        want = 'setCache' if light else 'setDataset'
        other = 'setDataset' if light else 'setCache'
        R.check(not both and bool(writes[want]) and not writes[other], cls[:90], 'src/' + ('vm_interpreted_light.hpp' if 'InterpretedLight' in cls else 'vm_compiled_light.hpp' if 'CompiledLight' in cls else 'vm_interpreted.hpp' if 'Interpreted' in cls else 'vm_compiled.hpp'),
                expected='%s binds, %s is a no-op' % (want, other),
                found='setCache -> %s writes %s; setDataset -> %s writes %s' % (setters['setCache']['dem'].split('(')[0][-50:], writes['setCache'][:2] or 'nothing', setters['setDataset']['dem'].split('(')[0][-50:], writes['setDataset'][:2] or 'nothing'))
    if n < 16:
        raise AnalysisBroken('BIND-EXCL: only %d VM vtables with both setters found' % n)
