"""[JIT-READREG] the address-register words of the A64 / RV64 / vector-RV64 program generators.

Specification 4.6.2: spMix = r[readReg0] ^ r[readReg1] (64 bits), mx ^= r[readReg2] ^ r[readReg3].  The three cross back-ends patch one XOR instruction per use
into their code, built from the members of the ProgramConfiguration.  Every such word expression found in a generator is evaluated (known-bits evaluator, members
set to constants) and decoded: it must be a register-register XOR of the target whose two sources are the registers of exactly one of the two pairs - the register
map is read off the expression itself by setting all four members to the same value - and the word of the first pair must be a 64-bit operation."""
import astq
from astq import loc, show, strip_all, walk
from core import AnalysisBroken
from domains import KB, KBEval
from rules import jit


def _decode(arch, w):
    """(rd, rs1, rs2, is64) of a plain register-register XOR, or None"""
    if arch == 'a64':
        if (w & 0x7F200000) == 0x4A000000 and ((w >> 10) & 0x3F) == 0 and ((w >> 22) & 3) == 0:
            return w & 31, (w >> 5) & 31, (w >> 16) & 31, bool(w >> 31)
        return None
    if (w & 0xfe00707f) == 0x00004033:
        return (w >> 7) & 31, (w >> 15) & 31, (w >> 20) & 31, True
    return None


def rule_readreg(ctx, R):
    R.rule('JIT-READREG', 'every instruction word that a program generator of the A64, RV64 and vector-RV64 back-ends builds from the read-register members of the program configuration, evaluated with the members set to '
           'constants and decoded, is a register-register XOR of the target whose two sources are the registers of readReg0 and readReg1 (the scratchpad address mix, a 64-bit operation) or of readReg2 and readReg3 '
           '(the dataset address mix) - never one member twice or members of both pairs (specification 4.6.2 steps 1 and 5); each back-end builds at least one word of each pair', min_instances=8)
    total = 0
    for arch, cfg, files in (('a64', 'K2', ('jit_compiler_a64.cpp',)), ('rv64', 'K3', ('jit_compiler_rv64.cpp',)), ('rvv', 'K3', ('jit_compiler_rv64_vector.cpp',))):
        F, hs = jit.handlers(ctx, arch)
        R.saw(config=cfg, unit='src/' + files[0])
        pairs_seen = {}
        seen_fn = set()
        for f in F.all_funcs():
            if f.get('body') is None or not any(f['file'].endswith(x) for x in files) or (f['q'], f['line']) in seen_fn:
                continue
            seen_fn.add((f['q'], f['line']))
            pn = [p['name'] for p in f['params'] if 'ProgramConfiguration' in (p.get('ty') or '')]
            if not pn:
                continue
            pn = pn[0]
            exprs = []
            for x in walk(f['body']):
                if x['k'] == 'Call' and x.get('a'):
                    for a in x['a']:
                        if (pn + '.readReg') in show(a):
                            exprs.append((a, x))
                elif x['k'] == 'Assign' and (pn + '.readReg') in show(x['r']):
                    exprs.append((x['r'], x))
                elif x['k'] == 'Decl':
                    for d in x.get('d', []):
                        if astq.is_node(d.get('init')) and (pn + '.readReg') in show(d['init']):
                            exprs.append((d['init'], x))
            # an argument of a call inside another collected expression is part of it
            inner = set()
            for e, st in exprs:
                for y in walk(e):
                    if y is not e:
                        inner.add(id(y))
            exprs = [(e, st) for e, st in exprs if id(e) not in inner]
            if exprs:
                R.saw(fn=f['q'])
            for e, st in exprs:
                where = loc(st, f)

                def word(vals):
                    env = {'%s.readReg%d' % (pn, k): KB.const(32, v) for k, v in enumerate(vals)}
                    try:
                        v = KBEval(F, env, 0, {}).ev(e).value()
                    except AnalysisBroken:
                        raise
                    except Exception as ex:
                        raise AnalysisBroken('JIT-READREG: %s at %s could not be evaluated (%r)' % (show(e)[:60], where, ex))
                    if v is None:
                        raise AnalysisBroken('JIT-READREG: %s at %s is not constant for constant read registers' % (show(e)[:60], where))
                    return v & 0xffffffff
                total += 1
                inst = '%s %s: %s' % (arch, f['name'], show(e)[:70])
                rmap = []
                okmap = True
                for k in range(8):
                    d = _decode(arch, word((k, k, k, k)))
                    if d is None or d[1] != d[2]:
                        okmap = False
                        break
                    rmap.append(d[1])
                if not okmap or len(set(rmap)) != 8:
                    R.violation(inst, where, expected='a register-register XOR whose sources follow the read registers through one injective register map', found='%#010x for all members = %d' % (word((k, k, k, k)), k))
                    continue
                verdicts = set()
                for vals in ((1, 4, 6, 3), (7, 2, 0, 5), (3, 3, 5, 5)):
                    d = _decode(arch, word(vals))
                    if d is None:
                        verdicts.add('not an XOR for %s' % (vals,))
                        continue
                    got = sorted((d[1], d[2]))
                    if got == sorted((rmap[vals[0]], rmap[vals[1]])) and got != sorted((rmap[vals[2]], rmap[vals[3]])):
                        verdicts.add(('pair01', d[3]))
                    elif got == sorted((rmap[vals[2]], rmap[vals[3]])) and got != sorted((rmap[vals[0]], rmap[vals[1]])):
                        verdicts.add(('pair23', d[3]))
                    else:
                        verdicts.add('sources x%d, x%d for readReg0..3 = %s' % (d[1], d[2], vals))
                if len(verdicts) == 1 and isinstance(list(verdicts)[0], tuple):
                    pair, is64 = list(verdicts)[0]
                    if pair == 'pair01' and not is64:
                        R.violation(inst, where, expected='the scratchpad address mix is the 64-bit XOR of the two registers (both halves are used)', found='a 32-bit XOR')
                        continue
                    pairs_seen.setdefault(pair, []).append(where)
                    R.ok(inst, where)
                else:
                    R.violation(inst, where, expected='sources = registers of (readReg0, readReg1) or of (readReg2, readReg3)', found=sorted(str(v) for v in verdicts)[:3])
        for pair, what in (('pair01', 'readReg0 ^ readReg1 (scratchpad addresses)'), ('pair23', 'readReg2 ^ readReg3 (dataset address)')):
            R.check(bool(pairs_seen.get(pair)), '%s builds a word for %s' % (arch, what), 'src/' + files[0], expected='at least one', found=pairs_seen.get(pair, [])[:3] or 'none')
    if total < 8:
        raise AnalysisBroken('JIT-READREG: only %d word expressions found' % total)
