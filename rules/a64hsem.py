"""[A64-HSEM] translation validation of the A64 integer register-form handlers by symbolic execution of the emitted words.

For h_IADD_RS, h_ISUB_R, h_IMUL_R, h_IMULH_R, h_ISMULH_R, h_INEG_R, h_IXOR_R, h_IROR_R, h_IROL_R and h_ISWAP_R the handler body is executed in the
known-bits domain for constant instruction fields (every dst x src pair, every shift, a set of boundary immediates, literal table free / exhausted); the
32-bit words it emits are decoded by their architectural encoding and applied to a register file of *terms* over the initial VM registers r0..r7
(linear combinations mod 2^64 of atoms; atoms are registers, products, high products, xors, rotations).  Afterwards the eight VM registers must hold the
terms chapter 5.2 of the specification prescribes and nothing else may have changed.  A difference of normal forms is confirmed by evaluating both terms on
fixed 64-bit valuations before it is reported (equal values everywhere = undecided = analysis-broken, never a violation)."""
import astq
from astq import loc, show, strip_all, val
from core import AnalysisBroken
from domains import KB, KBEval, type_info
from rules import jit
from rules.a64sem import Exec
import os as _os
from report import memoised

STRICT_FAMILY = bool(_os.environ.get('RXVERIF_STRICT_FAMILY'))

M64 = (1 << 64) - 1


# ------------------------------------------------------------------------------------------------------------------ terms
class Lin:
    """const + sum coeff * atom (mod 2^64); atoms are hashable tuples"""
    __slots__ = ('c', 't')

    def __init__(self, c=0, t=None):
        self.c = c & M64
        self.t = {a: k & M64 for a, k in (t or {}).items() if k & M64}

    def canon(self):
        return (self.c, tuple(sorted(self.t.items(), key=repr)))

    def is_const(self):
        return not self.t

    def __eq__(self, o):
        return isinstance(o, Lin) and self.canon() == o.canon()

    def __hash__(self):
        return hash(self.canon())


def const(c):
    return Lin(c)


def atom(a):
    return Lin(0, {a: 1})


def add(x, y):
    t = dict(x.t)
    for a, k in y.t.items():
        t[a] = (t.get(a, 0) + k) & M64
    return Lin(x.c + y.c, t)


def scale(x, k):
    return Lin(x.c * k, {a: c * k for a, c in x.t.items()})


def neg(x):
    return scale(x, M64)


def sub(x, y):
    return add(x, neg(y))


def mul(x, y):
    if x.is_const():
        return scale(y, x.c)
    if y.is_const():
        return scale(x, y.c)
    return atom(('mul',) + tuple(sorted((x.canon(), y.canon()), key=repr)))


def hi(kind, x, y):
    return atom((kind,) + tuple(sorted((x.canon(), y.canon()), key=repr)))


def xor(x, y):
    if x.is_const() and y.is_const():
        return const(x.c ^ y.c)
    if x.is_const() and x.c == 0:
        return y
    if y.is_const() and y.c == 0:
        return x
    return atom(('xor',) + tuple(sorted((x.canon(), y.canon()), key=repr)))


def orr(x, y):
    if x.is_const() and x.c == 0:
        return y
    if y.is_const() and y.c == 0:
        return x
    if x.is_const() and y.is_const():
        return const(x.c | y.c)
    return atom(('or',) + tuple(sorted((x.canon(), y.canon()), key=repr)))


def amount(y):
    """rotation amount: only its value mod 64 matters"""
    return Lin(y.c % 64, {a: k % 64 for a, k in y.t.items()})


def ror(x, y):
    y = amount(y)
    if y.is_const():
        n = y.c % 64
        if n == 0:
            return x
        if x.is_const():
            return const((x.c >> n) | (x.c << (64 - n)))
        return atom(('ror', x.canon(), n))
    return atom(('rorv', x.canon(), y.canon()))


def term_eval(canon, regs):
    """value of a canonical term for a valuation of r0..r7"""
    c, items = canon
    v = c
    for a, k in items:
        v += k * atom_eval(a, regs)
    return v & M64


def sgn(v):
    return v - (1 << 64) if v >> 63 else v


def atom_eval(a, regs):
    k = a[0]
    if k == 'reg':
        return regs[a[1]]
    if k == 'mul':
        return (term_eval(a[1], regs) * term_eval(a[2], regs)) & M64
    if k == 'umulh':
        return (term_eval(a[1], regs) * term_eval(a[2], regs)) >> 64
    if k == 'smulh':
        return ((sgn(term_eval(a[1], regs)) * sgn(term_eval(a[2], regs))) >> 64) & M64
    if k == 'xor':
        return term_eval(a[1], regs) ^ term_eval(a[2], regs)
    if k == 'or':
        return term_eval(a[1], regs) | term_eval(a[2], regs)
    if k == 'ror':
        x, n = term_eval(a[1], regs), a[2]
        return ((x >> n) | (x << (64 - n))) & M64
    if k == 'rorv':
        x, n = term_eval(a[1], regs), term_eval(a[2], regs) % 64
        return ((x >> n) | (x << (64 - n))) & M64 if n else x
    if k == 'extr':
        hi_, lo_, n = term_eval(a[1], regs), term_eval(a[2], regs), a[3]
        return (((hi_ << 64) | lo_) >> n) & M64
    if k == 'undef':
        return 0x5555AAAA5555AAAA ^ a[1]
    raise AnalysisBroken('A64-HSEM: unknown atom %r' % (k,))


def term_show(x, names):
    c, items = x.canon()
    parts = []
    for a, k in items:
        s = atom_show(a, names)
        parts.append(s if k == 1 else ('-' + s if k == M64 else '%#x*%s' % (k, s)))
    if c or not parts:
        parts.append('%#x' % c)
    return ' + '.join(parts)


def atom_show(a, names):
    if a[0] == 'reg':
        return 'r%d' % a[1]
    if a[0] == 'undef':
        return 'x%d(unset)' % a[1]
    if a[0] in ('ror',):
        return 'ror(%s, %d)' % (term_show(Lin(a[1][0], dict(a[1][1])), names), a[2])
    if a[0] == 'extr':
        return 'extr(%s : %s, %d)' % (term_show(Lin(a[1][0], dict(a[1][1])), names), term_show(Lin(a[2][0], dict(a[2][1])), names), a[3])
    return '%s(%s)' % (a[0], ', '.join(term_show(Lin(z[0], dict(z[1])), names) if isinstance(z, tuple) and len(z) == 2 and isinstance(z[1], tuple) else str(z) for z in a[1:]))


# ------------------------------------------------------------------------------------------------------------------ machine
class Machine:
    def __init__(self, regmap):
        self.x = {}
        for i, xr in enumerate(regmap):
            self.x[xr] = atom(('reg', i))
        self.literals = {}
        self.trace = []
        self.puts = set()

    def get(self, n):
        if n == 31:
            return const(0)
        return self.x.get(n, atom(('undef', n)))

    def put(self, n, v):
        if n != 31:
            self.x[n] = v
            self.puts.add(n)

    def step(self, w, where):
        f = lambda lo, n: (w >> lo) & ((1 << n) - 1)
        rd, rn, rm = f(0, 5), f(5, 5), f(16, 5)
        top8 = w >> 24
        if (w & 0xFF200000) in (0x8B000000, 0xCB000000, 0xCA000000, 0xAA000000):       # ADD / SUB / EOR / ORR (shifted register), 64-bit
            if f(22, 2) != 0:
                raise AnalysisBroken('A64-HSEM: shifted-register operand with a shift other than LSL at %s (%#010x)' % (where, w))
            b = scale(self.get(rm), 1 << f(10, 6))
            a = self.get(rn)
            op = w & 0xFF200000
            self.put(rd, {0x8B000000: add, 0xCB000000: sub, 0xCA000000: xor, 0xAA000000: orr}[op](a, b))
            return {0x8B000000: 'add', 0xCB000000: 'sub', 0xCA000000: 'eor', 0xAA000000: 'orr'}[op]
        if (w & 0xFF800000) in (0x91000000, 0xD1000000):                                    # ADD / SUB (immediate), 64-bit
            imm = f(10, 12) << (12 * f(22, 1))
            self.put(rd, (add if top8 == 0x91 else sub)(self.get(rn), const(imm)))
            return 'add#' if top8 == 0x91 else 'sub#'
        if (w & 0xFF800000) in (0xD2800000, 0x92800000, 0xF2800000):                        # MOVZ / MOVN / MOVK, 64-bit
            hw, imm16 = f(21, 2), f(5, 16)
            v = imm16 << (16 * hw)
            k = w & 0xFF800000
            if k == 0xD2800000:
                self.put(rd, const(v))
                return 'movz'
            if k == 0x92800000:
                self.put(rd, const(~v))
                return 'movn'
            cur = self.get(rd)
            if not cur.is_const():
                raise AnalysisBroken('A64-HSEM: movk into a register that does not hold a constant at %s' % where)
            self.put(rd, const((cur.c & ~(0xffff << (16 * hw))) | v))
            return 'movk'
        if (w & 0xFFE08000) == 0x9B000000:                                                   # MADD
            self.put(rd, add(self.get(f(10, 5)), mul(self.get(rn), self.get(rm))))
            return 'madd'
        if (w & 0xFFE0FC00) == 0x9BC07C00:
            self.put(rd, hi('umulh', self.get(rn), self.get(rm)))
            return 'umulh'
        if (w & 0xFFE0FC00) == 0x9B407C00:
            self.put(rd, hi('smulh', self.get(rn), self.get(rm)))
            return 'smulh'
        if (w & 0xFFE0FC00) == 0x9AC02C00:                                                   # RORV
            self.put(rd, ror(self.get(rn), self.get(rm)))
            return 'rorv'
        if (w & 0xFFE00000) == 0x93C00000:                                                   # EXTR
            if rn != rm:
                self.put(rd, atom(('extr', self.get(rn).canon(), self.get(rm).canon(), f(10, 6))))
                return 'extr'
            self.put(rd, ror(self.get(rn), const(f(10, 6))))
            return 'ror#'
        if (w & 0xffe0fc00) in (0x4E002C00, 0x0E003C00) and (w >> 16) & 7 == 4:             # smov Xd, Vn.S[i] / umov Wd, Vn.S[i]
            idx = f(5, 5) * 4 + f(19, 2)
            if idx not in self.literals:
                self.put(rd, atom(('undef', 1000 + idx)))
            else:
                v = self.literals[idx] & 0xffffffff
                self.put(rd, const(v | (0xffffffff00000000 if (v >> 31) and (w & 0xffe0fc00) == 0x4E002C00 else 0)))
            return 'smov' if (w & 0xffe0fc00) == 0x4E002C00 else 'umov'
        raise AnalysisBroken('A64-HSEM: instruction word %#010x emitted at %s is outside the decoded subset' % (w, where))


# ------------------------------------------------------------------------------------------------------------------ expected semantics (spec 5.2)
def expected(name, d, s, shift, imm, regs8):
    """terms of r0..r7 after the instruction, from the specification"""
    r = [atom(('reg', i)) for i in range(8)]
    simm = const(imm | (0xffffffff00000000 if imm >> 31 else 0))
    out = list(r)
    if name == 'IADD_RS':
        v = add(r[d], scale(r[s], 1 << shift))
        if d == 5:
            v = add(v, simm)
        out[d] = v
    elif name == 'ISUB_R':
        out[d] = sub(r[d], r[s] if s != d else simm)
    elif name == 'IMUL_R':
        out[d] = mul(r[d], r[s] if s != d else simm)
    elif name == 'IMULH_R':
        out[d] = hi('umulh', r[d], r[s])
    elif name == 'ISMULH_R':
        out[d] = hi('smulh', r[d], r[s])
    elif name == 'INEG_R':
        out[d] = neg(r[d])
    elif name == 'IXOR_R':
        out[d] = xor(r[d], r[s] if s != d else simm)
    elif name == 'IROR_R':
        out[d] = ror(r[d], r[s] if s != d else const(imm & 63))
    elif name == 'IROL_R':
        out[d] = ror(r[d], neg(r[s]) if s != d else const((64 - (imm & 63)) & 63))
    elif name == 'ISWAP_R':
        if s != d:
            out[d], out[s] = r[s], r[d]
    else:
        raise AnalysisBroken('A64-HSEM: no specification term for ' + name)
    return out


VALUATIONS = [
    [0x0123456789ABCDEF, 0xFEDCBA9876543210, 0x8000000000000000, 0x7FFFFFFFFFFFFFFF, 0xFFFFFFFFFFFFFFFF, 1, 0x00000000FFFFFFFF, 0xDEADBEEFCAFEF00D],
    [3, 0x8000000000000001, 0x5555555555555555, 0xAAAAAAAAAAAAAAAA, 0x0000000100000000, 0xFFFFFFFF00000000, 63, 64],
    [0x9E3779B97F4A7C15, 0xBF58476D1CE4E5B9, 0x94D049BB133111EB, 0x2545F4914F6CDD1D, 0xD6E8FEB86659FD93, 0xA0761D6478BD642F, 0xE7037ED1A0B428DB, 0x8EBC6AF09C88C6E3],
    [0xFFFFFFFFFFFFFFFF] * 8,
    [0x5555555555555555] * 8,
    [0xAAAAAAAAAAAAAAAA] * 8,
    [0x0F0F0F0F0F0F0F0F, 0xF0F0F0F0F0F0F0F0, 0x00FF00FF00FF00FF, 0xFF00FF00FF00FF00, 0x0000FFFF0000FFFF, 0xFFFF0000FFFF0000, 0x00000000FFFFFFFF, 0xFFFFFFFF00000000],
    [0x3C6EF372FE94F82B, 0xA54FF53A5F1D36F1, 0x510E527FADE682D1, 0x9B05688C2B3E6C1F, 0x1F83D9ABFB41BD6B, 0x5BE0CD19137E2179, 0x6A09E667F3BCC908, 0xBB67AE8584CAA73B],
    [(0x0123456789ABCDEF * (2 * i + 3)) & 0xFFFFFFFFFFFFFFFF for i in range(8)],
    [(0xFFFFFFFFFFFFFFFF >> (7 * i + 1)) for i in range(8)],
    [(1 << (8 * i + 6)) - 1 for i in range(8)],
]

IMMS = (0, 1, 63, 64, 0x7FF, 0x800, 0xFFF, 0x1000, 0x7FFFFFFF, 0x80000000, 0xFFFFFFFF, 0xFFFFF800, 0x12345678, 0xF1680000, 0x0000FFFF, 0xFFFF0000,
        # both signs of the 12- and 24-bit fields of the A64 add / sub immediates (round 7: a helper that mishandles exactly -2^24)
        0x00FFFFFF, 0x01000000, 0x01000001, 0xFF000000, 0xFEFFFFFF, 0xFF000001, 0xFFFFF000, 0xFFFFEFFF, 0xFFFFF001, 0x00FFF000)
HANDLERS = ('IADD_RS', 'ISUB_R', 'IMUL_R', 'IMULH_R', 'ISMULH_R', 'INEG_R', 'IXOR_R', 'IROR_R', 'IROL_R', 'ISWAP_R')


@memoised('A64-HSEM')
def rule_hsem(ctx, R):
    if STRICT_FAMILY:
        R.note('rule_hsem skipped: RXVERIF_STRICT_FAMILY=1 (emitted-code / executor evaluation on terms switched off, see DESIGN.md 9.2)')
        return
    F, hs = jit.handlers(ctx, 'a64')
    cls = 'randomx::JitCompilerA64'
    R.rule('A64-HSEM', 'for the ten integer register-form instructions the words the A64 handler emits, given their architectural meaning on a register file of terms over r0..r7, leave in the eight VM registers exactly the '
           'terms of specification 5.2 (sign-extended immediate when src == dst, shift, displacement for r5, rotation counts mod 64) and change nothing else; for every dst x src, every shift, 16 boundary immediates (rotation: all 64 counts), '
           'literal table free and exhausted', min_instances=3000)
    R.saw(config='K2', unit='src/jit_compiler_a64.cpp')
    g = F.glob('randomx::IntRegMap') if F.has_glob('randomx::IntRegMap') else (F.glob('IntRegMap') if F.has_glob('IntRegMap') else None)
    if g is None or not g.get('init') or g['init']['k'] != 'InitList':
        raise AnalysisBroken('A64-HSEM: IntRegMap not found')
    regmap = [val(e) for e in g['init']['e']]
    if len(regmap) != 8 or None in regmap or len(set(regmap)) != 8:
        raise AnalysisBroken('A64-HSEM: IntRegMap is not a table of 8 distinct registers')
    n = 0
    for name in HANDLERS:
        if name not in hs:
            raise AnalysisBroken('A64-HSEM: handler of %s not found' % name)
        h = hs[name].f
        where = '%s:%d' % (h['file'], h['line'])
        R.saw(fn=h['q'])
        ip = h['params'][0]
        shifts = (0, 1, 2, 3) if name == 'IADD_RS' else (0,)
        if name in ('IROR_R', 'IROL_R'):
            imms = tuple(range(64)) + (0xFFFFFFC0, 0x80000040, 0xFFFFFFFF, 0x7FFFFFC1)
        elif name in ('ISUB_R', 'IMUL_R', 'IXOR_R', 'IADD_RS'):
            imms = IMMS
        else:
            imms = (0x12345678,)
        for d in range(8):
            for s in range(8):
                for sh in shifts:
                    uses_imm = (s == d and name in ('ISUB_R', 'IMUL_R', 'IXOR_R', 'IROR_R', 'IROL_R')) or (name == 'IADD_RS' and d == 5)
                    for imm in (imms if uses_imm else imms[:1]):
                        for nlit in ((0, 64) if uses_imm and name not in ('IROR_R', 'IROL_R') else (64,)):
                            n += 1
                            got, tr = run_handler(F, cls, h, ip, d, s, sh, imm, nlit, regmap)
                            exp = expected(name, d, s, sh, imm, None)
                            bad = None
                            for i in range(8):
                                if got[i] != exp[i]:
                                    # confirm on concrete valuations
                                    differs = None
                                    for vals in VALUATIONS:
                                        a_, b_ = term_eval(got[i].canon(), vals), term_eval(exp[i].canon(), vals)
                                        if a_ != b_:
                                            differs = (vals, a_, b_)
                                            break
                                    if differs is None:
                                        raise AnalysisBroken('A64-HSEM: %s dst=r%d src=r%d: r%d is %s, the specification says %s; the two terms agree on every test valuation, equivalence undecided'
                                                             % (name, d, s, i, term_show(got[i], None), term_show(exp[i], None)))
                                    bad = 'r%d = %s after `%s` (specification: %s); e.g. with r%d = %#x%s the code gives %#x, the specification %#x' % (
                                        i, term_show(got[i], None), ' ; '.join(tr), term_show(exp[i], None), d, differs[0][d], '' if s == d else ', r%d = %#x' % (s, differs[0][s]), differs[1], differs[2])
                                    break
                            inst = '%s dst=r%d src=r%d%s%s' % (name, d, s, ' shift=%d' % sh if name == 'IADD_RS' else '', ' imm32=%#x literals=%d' % (imm, nlit) if uses_imm else '')
                            if bad:
                                R.violation(inst, where, expected='registers as in specification 5.2', found=bad)
                            elif n % 16 == 1:
                                R.ok(inst, where)
                            else:
                                R.ok(inst, where)
    if n < 3000:
        raise AnalysisBroken('A64-HSEM: only %d cases evaluated' % n)


def run_handler(F, cls, h, ip, d, s, sh, imm, nlit, regmap):
    m = Machine(regmap)
    ex = Exec(F, cls, None, {}, nlit)
    pname = ip['name']
    env0 = {
        '%s.dst' % pname: KB.const(8, d), '%s.src' % pname: KB.const(8, s), '%s.mod' % pname: KB.const(8, (sh << 2)),
    }
    ov = {'randomx::Instruction::getImm32': KB.const(32, imm), 'randomx::Instruction::getModShift': KB.const(32, sh),
          'randomx::Instruction::getModMem': KB.const(32, 0), 'randomx::Instruction::getModCond': KB.const(32, 0)}
    ex.run_with(h, [None, KB.const(32, 0x1000)], env0, ov)
    tr = []
    for w, where in ex.words:
        v = w.value()
        if v is None:
            raise AnalysisBroken('A64-HSEM: a word emitted at %s is not constant for constant instruction fields (%s)' % (where, w.hexpat()))
        m.literals = {k: (x.value() if x.value() is not None else 0) for k, x in ex.literals.items()}
        tr.append(m.step(v, where))
    return [m.get(regmap[i]) for i in range(8)], tr


def _ss_setup(ctx):
    from astq import walk
    F, hs = jit.handlers(ctx, 'a64')
    cls = 'randomx::JitCompilerA64'
    g = F.func(cls + '::generateSuperscalarHash')
    # the loop body that holds the switch over the instruction kind
    loops = [x for x in walk(g['body']) if x['k'] in ('For', 'While') and astq.is_node(x.get('b')) and x['b']['k'] == 'Compound' and any(y['k'] == 'Switch' for y in x['b']['s'])]
    if len(loops) != 1:
        raise AnalysisBroken('A64-SS-HSEM: expected one loop whose body holds the switch over the instruction kind, found %d' % len(loops))
    body = {'k': 'Compound', 's': [x for x in loops[0]['b']['s']]}
    consts = [x for x in g['body']['s'] if x['k'] == 'Decl' and all(d.get('init') is not None and val(d['init']) is not None for d in x['d'])]
    pseudo = dict(g, params=[], body={'k': 'Compound', 's': consts + body['s']})
    iname = None
    for x in body['s']:
        if x['k'] == 'Decl':
            for d_ in x['d']:
                if 'Instruction' in (d_.get('ty') or ''):
                    iname = d_['name']
    if iname is None:
        raise AnalysisBroken('A64-SS-HSEM: the Instruction local of the loop was not found')
    types = {k: v for k, v in F.enum('randomx::SuperscalarInstructionType').items() if k not in ('COUNT', 'INVALID')}
    return F, cls, g, pseudo, iname, types


def ss_written_registers(ctx):
    """machine registers the generated SuperscalarHash code can write (one case per instruction kind and destination, IMUL_RCP included)"""
    from rules import x86hsem as X
    F, cls, g, pseudo, iname, types = _ss_setup(ctx)
    out = set()
    seen = set()
    for name, d, s, sh, imm in X.ss_cases(types):
        if (name, d) in seen:
            continue
        seen.add((name, d))
        ex = Exec(F, cls, None, {}, 64)
        env0 = {'%s.dst' % iname: KB.const(8, d), '%s.src' % iname: KB.const(8, s), '%s.mod' % iname: KB.const(8, sh << 2), '%s.opcode' % iname: KB.const(8, types[name])}
        ov = {'randomx::Instruction::getImm32': KB.const(32, imm), 'randomx::Instruction::getModShift': KB.const(32, sh)}
        ex.run_with(pseudo, [], env0, ov)
        for w, wh in ex.words:
            if (w.zeros | w.ones) & 31 != 31:
                raise AnalysisBroken('A64 SuperscalarHash emitter: the destination field of a word emitted at %s is not constant (%s)' % (wh, w.hexpat()))
            out.add(w.ones & 31)
    out.discard(31)
    return out


@memoised('A64-SS-HSEM')
def rule_ss_hsem(ctx, R):
    if STRICT_FAMILY:
        R.note('rule_ss_hsem skipped: RXVERIF_STRICT_FAMILY=1 (emitted-code / executor evaluation on terms switched off, see DESIGN.md 9.2)')
        return
    """SuperscalarHash emitter of the A64 back-end: the switch inside generateSuperscalarHash (IMUL_RCP excluded: its multiplier is loaded from the literal pool)"""
    from rules import x86hsem as X
    F, cls, g, pseudo, iname, types = _ss_setup(ctx)
    R.rule('A64-SS-HSEM', 'for each SuperscalarHash instruction kind except IMUL_RCP the words the A64 generateSuperscalarHash emits, given their architectural meaning on terms over r0..r7 (x0..x7), compute what specification '
           'Table 6.1.1 prescribes and change no other VM register; every dst x src the generator can produce, boundary constants', min_instances=500)
    R.saw(config='K2', unit='src/jit_compiler_a64.cpp')
    R.saw(fn=g['q'])
    where = '%s:%d' % (g['file'], g['line'])
    regmap = list(range(8))
    n = 0
    for name, d, s, sh, imm in X.ss_cases(types):
        if name == 'IMUL_RCP':
            continue
        n += 1
        m = Machine(regmap)
        ex = Exec(F, cls, None, {}, 64)
        env0 = {'%s.dst' % iname: KB.const(8, d), '%s.src' % iname: KB.const(8, s), '%s.mod' % iname: KB.const(8, sh << 2), '%s.opcode' % iname: KB.const(8, types[name])}
        ov = {'randomx::Instruction::getImm32': KB.const(32, imm), 'randomx::Instruction::getModShift': KB.const(32, sh)}
        ex.run_with(pseudo, [], env0, ov)
        tr, bad = [], None
        if not ex.words:
            bad = 'nothing is emitted'
        for w, wh in ex.words:
            v = w.value()
            if v is None:
                raise AnalysisBroken('A64-SS-HSEM: a word emitted at %s is not constant (%s)' % (wh, w.hexpat()))
            tr.append(m.step(v, wh))
        if bad is None:
            got = [m.get(regmap[i]) for i in range(8)]
            exp = X.ss_expected(name, d, s, sh, imm)
            for i in range(8):
                if got[i] != exp[i]:
                    differs = None
                    for vals in VALUATIONS:
                        a_, b_ = term_eval(got[i].canon(), vals), term_eval(exp[i].canon(), vals)
                        if a_ != b_:
                            differs = (vals, a_, b_)
                            break
                    if differs is None:
                        raise AnalysisBroken('A64-SS-HSEM: %s dst=r%d src=r%d: r%d is %s, the specification says %s; equivalence undecided' % (name, d, s, i, term_show(got[i], None), term_show(exp[i], None)))
                    bad = 'r%d = %s after `%s` (specification: %s); e.g. the code gives %#x, the specification %#x' % (i, term_show(got[i], None), ' ; '.join(tr), term_show(exp[i], None), differs[1], differs[2])
                    break
        inst = 'superscalar %s dst=r%d src=r%d%s imm32=%#x' % (name, d, s, ' shift=%d' % sh if name == 'IADD_RS' else '', imm)
        if bad:
            R.violation(inst, where, expected='registers as in specification Table 6.1.1', found=bad)
        else:
            R.ok(inst, where)
    if n < 500:
        raise AnalysisBroken('A64-SS-HSEM: only %d cases evaluated' % n)


# ---------------------------------------------------------------------------------------------------------------------------
# memory-form integer instructions and ISTORE

def decode_bitmask(n, imms, immr, size=64):
    """DecodeBitMasks of the A64 logical-immediate encoding (ARM ARM, shared pseudocode); returns the immediate or None for a reserved encoding"""
    combined = (n << 6) | ((~imms) & 0x3f)
    if combined == 0:
        return None
    length = combined.bit_length() - 1
    if length < 1:
        return None
    levels = (1 << length) - 1
    s_ = imms & levels
    r_ = immr & levels
    if s_ == levels:
        return None
    esize = 1 << length
    welem = (1 << (s_ + 1)) - 1
    welem = ((welem >> r_) | (welem << (esize - r_))) & ((1 << esize) - 1)
    out = 0
    for i in range(0, size, esize):
        out |= welem << i
    return out & ((1 << size) - 1)


class MemMachine(Machine):
    def __init__(self, regmap):
        Machine.__init__(self, regmap)
        self.x[2] = atom(('spad',))
        self.stores = []

    def step(self, w, where):
        from rules import x86hsem as X
        f = lambda lo, n: (w >> lo) & ((1 << n) - 1)
        rd, rn, rm = f(0, 5), f(5, 5), f(16, 5)
        if (w & 0xFF800000) == 0x92000000:                      # AND (immediate), 64-bit
            m_ = decode_bitmask(f(22, 1), f(10, 6), f(16, 6))
            if m_ is None:
                raise AnalysisBroken('A64-MEM-HSEM: reserved logical immediate in %#010x at %s' % (w, where))
            self.put(rd, X.and_(self.get(rn), const(m_)))
            return 'and#%#x' % m_
        if (w & 0xFFE0EC00) in (0xF8606800, 0xF8206800) and f(13, 3) == 3:      # LDR / STR (register), 64-bit, LSL
            a = add(self.get(rn), scale(self.get(rm), 8 if f(12, 1) else 1))
            if (w & 0xFFE0EC00) == 0xF8606800:
                self.put(rd, X.ld64(a))
                return 'ldr'
            self.stores.append((a, self.get(rd)))
            return 'str'
        if (w & 0xFFC00000) in (0xF9400000, 0xF9000000):                        # LDR / STR (immediate, unsigned offset), 64-bit
            a = add(self.get(rn), const(f(10, 12) * 8))
            if (w & 0xFFC00000) == 0xF9400000:
                self.put(rd, X.ld64(a))
                return 'ldr#'
            self.stores.append((a, self.get(rd)))
            return 'str#'
        return Machine.step(self, w, where)


MEM_HANDLERS = ('IADD_M', 'ISUB_M', 'IMUL_M', 'IMULH_M', 'ISMULH_M', 'IXOR_M', 'ISTORE')


@memoised('A64-MEM-HSEM')
def rule_mem_hsem(ctx, R):
    if STRICT_FAMILY:
        R.note('rule_mem_hsem skipped: RXVERIF_STRICT_FAMILY=1 (emitted-code / executor evaluation on terms switched off, see DESIGN.md 9.2)')
        return
    from rules import x86hsem as X
    F, hs = jit.handlers(ctx, 'a64')
    cls = 'randomx::JitCompilerA64'
    R.rule('A64-MEM-HSEM', 'for the six memory-form integer instructions and ISTORE the words the A64 handler emits, given their architectural meaning on terms with x2 as the scratchpad base, read (write) the 8 bytes at '
           'scratchpad + ((src + sext(imm32)) & mask) with the L1 / L2 mask chosen by mod.mem (ISTORE: L3 when mod.cond >= StoreL3Condition; src == dst: the constant address imm32 & L3 mask) and combine them with dst as specification 5.2 prescribes; '
           'the and-immediates are decoded by the logical-immediate rules; every dst x src, mod.mem in {0, 1, 3}, boundary immediates, literal table free and exhausted', min_instances=2500)
    R.saw(config='K2', unit='src/jit_compiler_a64.cpp')
    FI = astq.Facts(ctx, 'K0')
    K = {'L1': FI.const('randomx::ScratchpadL1Mask'), 'L2': FI.const('randomx::ScratchpadL2Mask'), 'L3': FI.const('randomx::ScratchpadL3Mask'), 'StoreL3Condition': FI.const('randomx::StoreL3Condition')}
    if None in K.values():
        raise AnalysisBroken('A64-MEM-HSEM: scratchpad mask constants not found')
    g = F.glob('randomx::IntRegMap')
    regmap = [val(e) for e in g['init']['e']]
    n = 0
    for name in MEM_HANDLERS:
        if name not in hs:
            raise AnalysisBroken('A64-MEM-HSEM: handler of %s not found' % name)
        h = hs[name].f
        where = '%s:%d' % (h['file'], h['line'])
        R.saw(fn=h['q'])
        ip = h['params'][0]
        for d in range(8):
            for s in range(8):
                for modmem in (0, 1, 3):
                    for modcond in ((0, 13, 14, 15) if name == 'ISTORE' else (0,)):
                        imms = (X.MEM_IMMS_CONST if (modmem == 0 and (d % 3 == 0 or getattr(ctx, 'tier', 'quick') == 'thorough')) else X.MEM_IMMS[:3]) if (s == d and name != 'ISTORE') else (X.MEM_IMMS if (d + s + modmem) % (3 if getattr(ctx, 'tier', 'quick') == 'thorough' else 7) == 0 else X.MEM_IMMS[5:7])
                        for imm in imms:
                            for nlit in ((0, 64) if (d + s) % 4 == 0 else (64,)):
                                n += 1
                                mod = modmem | (modcond << 4)
                                m = MemMachine(regmap)
                                ex = Exec(F, cls, None, {}, nlit)
                                pname = ip['name']
                                env0 = {'%s.dst' % pname: KB.const(8, d), '%s.src' % pname: KB.const(8, s), '%s.mod' % pname: KB.const(8, mod)}
                                ov = {'randomx::Instruction::getImm32': KB.const(32, imm), 'randomx::Instruction::getModShift': KB.const(32, (mod >> 2) & 3),
                                      'randomx::Instruction::getModMem': KB.const(32, modmem), 'randomx::Instruction::getModCond': KB.const(32, modcond)}
                                ex.run_with(h, [None, KB.const(32, 0x1000)], env0, ov)
                                tr = []
                                for w, wh in ex.words:
                                    v = w.value()
                                    if v is None:
                                        raise AnalysisBroken('A64-MEM-HSEM: a word emitted at %s is not constant (%s)' % (wh, w.hexpat()))
                                    m.literals = {k_: (x_.value() if x_.value() is not None else 0) for k_, x_ in ex.literals.items()}
                                    tr.append(m.step(v, wh))
                                exp, exp_st = X.mem_expected(name, d, s, imm, modmem, modcond, K)
                                got = [m.get(regmap[i]) for i in range(8)]
                                pairs = [('r%d' % i, got[i], exp[i]) for i in range(8)]
                                bad = None
                                if len(m.stores) != len(exp_st):
                                    bad = '%d store(s) after `%s`, the specification has %d' % (len(m.stores), ' ; '.join(tr), len(exp_st))
                                else:
                                    for (ga, gv), (ea, ev_) in zip(m.stores, exp_st):
                                        pairs.append(('store address', ga, ea))
                                        pairs.append(('stored value', gv, ev_))
                                for what, g_, e_ in (pairs if bad is None else ()):
                                    if g_ != e_:
                                        differs = None
                                        for vals in VALUATIONS:
                                            a_, b_ = T_eval(g_, vals), T_eval(e_, vals)
                                            if a_ != b_:
                                                differs = (vals, a_, b_)
                                                break
                                        if differs is None:
                                            raise AnalysisBroken('A64-MEM-HSEM: %s dst=r%d src=r%d: %s is %s, the specification says %s; equivalence undecided' % (name, d, s, what, term_show(g_, None), term_show(e_, None)))
                                        bad = '%s = %s after `%s` (specification: %s); e.g. the code gives %#x, the specification %#x' % (what, term_show(g_, None), ' ; '.join(tr), term_show(e_, None), differs[1], differs[2])
                                        break
                                inst = '%s dst=r%d src=r%d mod.mem=%d%s imm32=%#x literals=%d' % (name, d, s, modmem, ' mod.cond=%d' % modcond if name == 'ISTORE' else '', imm, nlit)
                                if bad:
                                    R.violation(inst, where, expected='as in specification 5.2 (address = (src + sext(imm32)) & mask)', found=bad)
                                else:
                                    R.ok(inst, where)
    if n < 2500:
        raise AnalysisBroken('A64-MEM-HSEM: only %d cases evaluated' % n)


def T_eval(x, vals):
    import rules.a64hsem as me
    return me.term_eval(x.canon(), vals)


# ---------------------------------------------------------------------------------------------------------------------------
# CBRANCH

@memoised('A64-CBR-HSEM')
def rule_cbranch(ctx, R):
    if STRICT_FAMILY:
        R.note('rule_cbranch skipped: RXVERIF_STRICT_FAMILY=1')
        return
    F, hs = jit.handlers(ctx, 'a64')
    cls = 'randomx::JitCompilerA64'
    R.rule('A64-CBR-HSEM', 'the words h_CBRANCH emits add the immediate of specification 5.4.3 (bit mod.cond + 8 set, the bit below cleared, sign-extended) to the register, test it against 0xFF << (mod.cond + 8) '
           '(logical immediate decoded) with `tst`, and branch with `b.eq` to exactly the code offset recorded for the register in reg_changed_offset; for every dst, every mod.cond, boundary immediates, '
           'several (position, target) pairs, literal table free and exhausted', min_instances=500)
    R.saw(config='K2', unit='src/jit_compiler_a64.cpp')
    FI = astq.Facts(ctx, 'K0')
    co, cm = FI.const('randomx::ConditionOffset'), FI.const('randomx::ConditionMask')
    h = hs['CBRANCH'].f
    R.saw(fn=h['q'])
    where = '%s:%d' % (h['file'], h['line'])
    g = F.glob('randomx::IntRegMap')
    regmap = [val(e) for e in g['init']['e']]
    ip = h['params'][0]
    keys = set()
    for x in astq.walk(h['body']):
        if x['k'] == 'Idx' and 'reg_changed_offset' in show(x['b']):
            keys.add(show(x))
    n = 0
    for d in range(8):
        for cond in range(16):
            for imm in (0, 0xFFFFFFFF, 0x80000000, 0x7FFFFFFF, 0x00FF00FF, 0x00000FFF, 0x00FFF000):
                for pos0, tgt in ((0x1000, 0x800), (0x9000, 0x300), (0x2000, 0x1FFC)):
                    if (d + cond) % 3 and pos0 != 0x1000:
                        continue
                    for nlit in ((0, 64) if (d + cond) % 4 == 0 else (64,)):
                        n += 1
                        shift = cond + co
                        want_imm = ((imm | (1 << shift)) & ~(1 << (shift - 1))) & 0xffffffff
                        want_s = want_imm | (0xffffffff00000000 if want_imm >> 31 else 0)
                        m = Machine(regmap)
                        ex = Exec(F, cls, None, {}, nlit)
                        pname = ip['name']
                        env0 = {'%s.dst' % pname: KB.const(8, d), '%s.src' % pname: KB.const(8, (d + 1) % 8), '%s.mod' % pname: KB.const(8, cond << 4)}
                        for k_ in keys:
                            env0[k_] = KB.const(32, tgt)
                        ov = {'randomx::Instruction::getImm32': KB.const(32, imm), 'randomx::Instruction::getModCond': KB.const(32, cond)}
                        ex.run_with(h, [None, KB.const(32, pos0)], env0, ov)
                        words = []
                        for w, wh in ex.words:
                            v = w.value()
                            if v is None:
                                raise AnalysisBroken('A64-CBR-HSEM: a word emitted at %s is not constant (%s)' % (wh, w.hexpat()))
                            words.append((v, wh))
                        bad = None
                        tr = []
                        tst = br = None
                        for idx, (v, wh) in enumerate(words):
                            if (v & 0xFF80001F) == 0xF200001F:                       # ANDS xzr, xn, #imm  (tst)
                                tst = (idx, (v >> 5) & 31, decode_bitmask((v >> 22) & 1, (v >> 10) & 63, (v >> 16) & 63))
                                tr.append('tst x%d, #%s' % (tst[1], hex(tst[2]) if tst[2] is not None else '?'))
                            elif (v & 0xFF000010) == 0x54000000:                      # b.cond
                                off = (v >> 5) & 0x7ffff
                                if off >> 18:
                                    off -= 1 << 19
                                br = (idx, v & 15, off * 4)
                                tr.append('b.%s %+d' % ({0: 'eq', 1: 'ne'}.get(v & 15, 'cc%d' % (v & 15)), off * 4))
                            else:
                                m.literals = {k_: (x_.value() if x_.value() is not None else 0) for k_, x_ in ex.literals.items()}
                                tr.append(m.step(v, wh))
                        r_ = atom(('reg', d))
                        if tst is None or br is None or br[0] != len(words) - 1 or tst[0] != br[0] - 1:
                            bad = 'expected add ... ; tst ; b.eq, found `%s`' % ' ; '.join(tr)
                        elif m.get(regmap[d]) != add(r_, const(want_s)):
                            bad = 'r%d = %s, the specification adds %#x (`%s`)' % (d, term_show(m.get(regmap[d]), None), want_s, ' ; '.join(tr))
                        elif tst[1] != regmap[d] or tst[2] != (cm << shift):
                            bad = '`%s`: the specification tests r%d (x%d) against %#x' % (tr[tst[0]], d, regmap[d], cm << shift)
                        elif br[1] != 0:
                            bad = 'the branch condition is not "eq"'
                        elif pos0 + 4 * br[0] + br[2] != tgt:
                            bad = 'the branch at %#x lands at %#x, the recorded target is %#x' % (pos0 + 4 * br[0], pos0 + 4 * br[0] + br[2], tgt)
                        else:
                            for i in range(8):
                                if i != d and m.get(regmap[i]) != atom(('reg', i)):
                                    bad = 'r%d changed' % i
                        inst = 'CBRANCH dst=r%d mod.cond=%d imm32=%#x at %#x -> %#x literals=%d' % (d, cond, imm, pos0, tgt, nlit)
                        if bad:
                            R.violation(inst, where, expected='add ; tst ; b.eq target', found=bad)
                        else:
                            R.ok(inst, where)
    if n < 500:
        raise AnalysisBroken('A64-CBR-HSEM: only %d cases' % n)


@memoised('A64-DSOFF')
def rule_dsoff(ctx, R):
    if STRICT_FAMILY:
        R.note('rule_dsoff skipped: RXVERIF_STRICT_FAMILY=1')
        return
    from rules.rvhsem import _exec_prefix, FI_const
    F, hs = jit.handlers(ctx, 'a64')
    R.rule('A64-DSOFF', 'generateProgramLight (A64): the two `add x2, x2, #imm` words patched into the template add exactly datasetOffset / 64 (low 12 bits, then the next 12 bits shifted by 12), for every value of the low 12 bits and '
           'several upper parts; decided by known-bits evaluation of the split and the architectural meaning of ADD (immediate)', min_instances=1)
    R.saw(config='K2', unit='src/jit_compiler_a64.cpp')
    f = F.func('randomx::JitCompilerA64::generateProgramLight')
    R.saw(fn=f['q'])
    where = '%s:%d' % (f['file'], f['line'])
    off_p = [p for p in f['params'] if type_info(p.get('ty')) is not None]
    if len(off_p) != 1:
        raise AnalysisBroken('A64-DSOFF: the dataset offset parameter of generateProgramLight was not identified')
    off_p = off_p[0]
    cls = FI_const(ctx, 'randomx::CacheLineSize')
    # the patch statements: the emit32 calls after the last repositioning of the write position
    stmts = f['body']['s']
    pos_sets = [i for i, s in enumerate(stmts) if strip_all(s)['k'] == 'Assign' and 'light_dataset_offset' in show(strip_all(s)['r'])]
    if len(pos_sets) != 1:
        raise AnalysisBroken('A64-DSOFF: the repositioning to the dataset-offset patch site was not found')
    sites = [s for s in stmts[pos_sets[0] + 1:] if strip_all(s)['k'] == 'Call' and (strip_all(s).get('name') or '').startswith('emit')]
    if not sites:
        raise AnalysisBroken('A64-DSOFF: nothing is emitted at the dataset-offset patch site')
    if any(strip_all(s).get('name') != 'emit32' for s in sites):
        raise AnalysisBroken('A64-DSOFF: the patch site is written through a helper (A64-PATCHLEN decides whether that is admissible)')
    n = 0
    bad = None
    for low in range(4096):
        for up in ((0, 1, 0x3F, 0x7F, 0xFFF) if (low % 64 == 0 or low in (0x7FF, 0x801, 0xFFF)) else (0, 0x7F)):
            item = (up << 12) | low
            ev = _exec_prefix(F, f, {off_p['id']: KB.const(32, (item * cls) & 0xffffffff)}, sites[-1])
            if (item * cls) >> 32:
                continue
            tot = 0
            ok = True
            for s_ in sites:
                w = ev.ev(strip_all(s_)['a'][0]).value()
                if w is None or (w & 0xFF800000) != 0x91000000 or (w & 31) != 2 or ((w >> 5) & 31) != 2:
                    ok = False
                    break
                tot += ((w >> 10) & 0xfff) << (12 * ((w >> 22) & 1))
            n += 1
            if (not ok or tot != item) and bad is None:
                bad = 'datasetOffset / 64 = %#x: the patched words %s' % (item, 'add %#x' % tot if ok else 'are not `add x2, x2, #imm`')
    R.check(bad is None, 'add pair for the dataset offset', where, expected='x2 += datasetOffset / 64 for all %d sampled offsets' % n, found=bad or 'exact')
    R.extra['a64_dsoff_samples'] = n
