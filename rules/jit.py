"""Sibling rules between a JIT back-end and the interpreter (reference): TAB-OPC, LW-SIB, SPLIT-SIB,
RCP-NOOP, CBR-BITS/CBR-TARGET, MEM-JITMASK, CFR-SIB, V2-GATES.  Parametrised by back-end."""
import re

import astq
import decoder
import domains
import jitfacts
from astq import calls, loc, show, showv, strip_all, val, walk
from core import AnalysisBroken
from domains import KB, KBEval
from rules import decode

ARCH = {
    'x86': dict(config='K0', cls='randomx::JitCompilerX86', unit='src/jit_compiler_x86.cpp', table='randomx::JitCompilerX86::engine',
                handler=r'^randomx::JitCompilerX86::h_(\w+)$'),
    'a64': dict(config='K2', cls='randomx::JitCompilerA64', unit='src/jit_compiler_a64.cpp', table='randomx::JitCompilerA64::engine',
                handler=r'^randomx::JitCompilerA64::h_(\w+)$'),
    'rv64': dict(config='K3', cls='randomx::JitCompilerRV64', unit='src/jit_compiler_rv64.cpp', table='(anonymous namespace)::opcodeMap1',
                 handler=r'^(?:randomx::|\(anonymous namespace\)::)*h_(\w+)$'),
    'rvv': dict(config='K3', cls='randomx::JitCompilerRV64', unit='src/jit_compiler_rv64_vector.cpp', table='randomx::JitCompilerRV64::instMap', generator='randomx::generateProgramVectorRV64'),
}

_H = {}


def handlers(ctx, arch):
    k = (ctx.key, arch)
    if k in _H:
        return _H[k]
    A = ARCH[arch]
    units = None
    if A['config'] == 'K3':
        # the scalar and the vector RV64 generators are separate translation units that define same-named statics
        other = {'rv64': 'src/jit_compiler_rv64_vector.cpp', 'rvv': 'src/jit_compiler_rv64.cpp'}[arch]
        units = [u for u in ctx.ast_units('K3') if u != other]
    F = astq.Facts(ctx, A['config'], units)
    if 'generator' in A:
        g = F.func(A['generator'])
        it = F.enum('randomx::InstructionType')
        hs, loop, sw, ip = jitfacts.case_handlers(F, g, {v: k for k, v in it.items()})
        if len(hs) < 30:
            raise AnalysisBroken('%s: only %d instruction cases found' % (arch, len(hs)))
        _H[k] = (F, hs)
        return _H[k]
    hs = {}
    for f in F.funcs(A['handler']):
        if f['_unit'] != A['unit'] and not f['file'].endswith(A['unit'].split('/')[-1]):
            continue
        name = re.match(A['handler'], f['q']).group(1)
        hs[name] = jitfacts.Handler(F, f)
    if len(hs) < 30:
        raise AnalysisBroken('%s: only %d instruction handlers found' % (arch, len(hs)))
    _H[k] = (F, hs)
    return _H[k]


def rule_tab_opc(ctx, R, arch, FI):
    """opcode -> handler table of the back-end equals the interpreter's opcode -> instruction map."""
    A = ARCH[arch]
    F, hs = handlers(ctx, arch)
    I = decode.interp(ctx, FI)
    R.rule('TAB-OPC', 'for every opcode 0..255 the back-end\'s handler table selects the handler of the instruction the interpreter decodes for that opcode', min_instances=256)
    if 'generator' in A:
        # table of InstructionType bytes consumed by a switch
        FT = astq.Facts(ctx, A['config'])
        g = FT.glob(A['table'])
        it = {v: k for k, v in FT.enum('randomx::InstructionType').items()}
        init = g.get('init')
        if not init or init['k'] != 'InitList':
            raise AnalysisBroken('%s has no initialiser list' % A['table'])
        tab = ['h_' + str(it.get(val(e), val(e))) for e in init['e']]
        missing = [n for n in it.values() if n not in hs and n != 'NOP']
        R.check(not missing, '%s switch handles every instruction type' % arch, A['unit'], expected='a case per InstructionType', found='missing %s' % missing)
    else:
        tab, g = jitfacts.engine_table(F, A['table'])
    R.saw(unit=A['unit'], config=A['config'])
    if len(tab) != 256:
        R.violation('%s table size' % arch, '%s:%d' % (g['file'], g['line']), expected=256, found=len(tab))
        return
    om = I.opcode_map()
    for op in range(256):
        want = om.get(op)
        got = tab[op].split('::')[-1]
        R.check(got == 'h_' + str(want), '%s opcode %d' % (arch, op), '%s:%d' % (g['file'], g['line']), expected='h_%s' % want, found=got)


def rule_lw_sib(ctx, R, arch, FI):
    F, hs = handlers(ctx, arch)
    I = decode.interp(ctx, FI)
    ic = jitfacts.interp_canon(I)
    isplit = jitfacts.interp_split(I)
    R.rule('LW-SIB', 'per instruction the back-end marks the same registers in its last-writer table under the same guards '
           '(always / src != dst / !isZeroOrPowerOf2(imm32)) as the interpreter decoder', min_instances=30)
    R.rule('SPLIT-SIB', 'the set of instructions whose handler distinguishes src == dst equals the decoder\'s', min_instances=30)
    for name, h in sorted(hs.items()):
        if name not in ic:
            R.violation('%s %s' % (arch, name), '%s:%d' % (h.f['file'], h.f['line']), expected='instruction known to the interpreter', found='no decoder block', rule='LW-SIB')
            continue
        R.saw(fn=h.f['q'])
        jc = jitfacts.canon(h.paths)
        R.check(jc == ic[name], '%s %s' % (arch, name), '%s:%d' % (h.f['file'], h.f['line']), expected=fmt_canon(ic[name]), found=fmt_canon(jc), rule='LW-SIB')
        jsplit = any(a == 'dst != src' for p in h.paths for a, _ in p['conds'])
        # helpers that take the instruction and split inside (A64 emitMemLoad)
        if not jsplit:
            for p in h.paths:
                for c in p['helpers']:
                    if helper_splits(F, c, h=h):
                        jsplit = True
        exp = isplit[name]
        R.check(jsplit == exp, '%s %s' % (arch, name), '%s:%d' % (h.f['file'], h.f['line']), expected='distinguishes src == dst: %s' % exp, found=jsplit, rule='SPLIT-SIB')
    missing = sorted(set(ic) - set(hs))
    R.check(not missing, '%s handlers for all instructions' % arch, ARCH[arch]['unit'], expected='30 handlers', found='missing %s' % missing, rule='LW-SIB')


def rule_lw_value(ctx, R, arch):
    """the value stored in the last-writer table is the identity of the instruction being translated (its index, or the code position reached after it),
    never something read from the table or computed from other instructions"""
    F, hs = handlers(ctx, arch)
    R.rule('LW-VALUE', 'every mark a handler puts into the last-writer table (registerUsage / reg_changed_offset / last_modified) is the current instruction: its index parameter, or the code position after the words just emitted; '
           'a CBRANCH target derived from an older mark would re-execute the instruction that wrote the register', min_instances=15)
    n = 0
    for name, h in sorted(hs.items()):
        f = h.f
        ok_ids = set()
        ps = f.get('params') or []
        if arch in ('x86',) and len(ps) >= 2:
            ok_ids.add(ps[1]['id'])
        elif arch == 'rv64' and len(ps) >= 3:
            ok_ids.add(ps[2]['id'])
        elif arch == 'a64' and len(ps) >= 2:
            ok_ids.add(ps[1]['id'])
        # locals initialised from the position / index, and the cursor the emit macros write through
        for x in walk(f['body']):
            if x['k'] == 'Decl':
                for d in x['d']:
                    if d.get('init') is not None and ref_id_(d['init']) in ok_ids:
                        ok_ids.add(d['id'])
        if arch == 'rvv':
            for c in calls(f['body']):
                if c.get('name') == 'memcpy' and c.get('a') and ref_id_(c['a'][0]) is not None:
                    ok_ids.add(ref_id_(c['a'][0]))
            for x in walk(f['body']):
                # the loop index of the generator is also the instruction's identity
                pass
        for x in walk(f['body']):
            if x['k'] == 'Assign':
                l = strip_all(x['l'])
                if l['k'] == 'Idx' and show(l['b']).split('.')[-1].split('>')[-1] in jitfacts.MARK_TABLES:
                    n += 1
                    rid = ref_id_(x['r'])
                    R.check(rid is not None and rid in ok_ids, '%s %s: %s' % (arch, name, show(l)[:50]), loc(x, f), expected='the index / code position of the instruction being translated', found=show(x['r'])[:80])
    if n < 15:
        raise AnalysisBroken('LW-VALUE(%s): only %d marks found' % (arch, n))


def ref_id_(n):
    n = strip_all(n)
    while n['k'] == 'Cast':
        n = strip_all(n['e'])
    return n.get('id') if n['k'] == 'Ref' else None


_HS = {}


def helper_splits(F, call, depth=0, h=None):
    fn = call.get('fn')
    if fn and F.has_func(fn) and jitfacts.instr_param(F.func(fn)) is None:
        # helper that receives register numbers: it distinguishes the instruction's src == dst only if its `src` parameter is fed from the instruction's
        # src field and its `dst` parameter from the dst field (emitImm32(dst, dst, ...) compares two copies of the same register)
        g = F.func(fn)
        roles = {}
        for prm, a in zip(g['params'], call.get('a', [])):
            if prm.get('name') in ('src', 'dst'):
                roles[prm['name']] = h.desc(a) if h is not None else None
        if roles.get('src') != 'src' or roles.get('dst') != 'dst':
            return False
        for x in walk(g['body']):
            if x['k'] == 'Bin' and x['op'] in ('!=', '==') and {show(x['l']), show(x['r'])} == {'src', 'dst'}:
                return True
        return False
    if fn and F.has_func(fn):
        # a helper that compares its src / dst parameters does not split when the call passes a register number outside 0..7 for one of them
        # (the RV64 vector back-end passes RegistersCount as dst for the float loads)
        g = F.func(fn)
        for prm, a in zip(g['params'], call.get('a', [])):
            if prm.get('name') in ('src', 'dst') and val(a) is not None and not (0 <= val(a) < 8):
                return False
    if fn in _HS:
        return _HS[fn]
    res = False
    if fn and F.has_func(fn) and depth < 3:
        f = F.func(fn)
        ip = jitfacts.instr_param(f)
        if ip is not None:
            try:
                h = jitfacts.Handler(F, f)
                res = any(a == 'dst != src' for p in h.paths for a, _ in p['conds'])
                if not res:
                    # comparison may be between parameters that carry the mapped registers
                    pn = {p['id']: p['name'] for p in f['params']}
                    for x in walk(f['body']):
                        if x['k'] == 'Bin' and x['op'] in ('!=', '==') and {show(x['l']), show(x['r'])} == {'src', 'dst'}:
                            res = True
            except AnalysisBroken:
                res = False
    _HS[fn] = res
    return res


def fmt_canon(c):
    out = []
    for k, (marks, allm) in sorted(c.items()):
        cond = ' && '.join(('' if v else '!') + '(' + a + ')' for a, v in k) or 'always'
        out.append('%s: mark %s%s' % (cond, list(marks), ' + all %d' % allm if allm else ''))
    return out


def rule_rcp(ctx, R, arch):
    F, hs = handlers(ctx, arch)
    R.rule('RCP-NOOP', 'IMUL_RCP: every emit and the last-writer mark are control-dependent on !isZeroOrPowerOf2(zero-extended imm32); the no-op arm does nothing', min_instances=2)
    h = hs.get('IMUL_RCP')
    if h is None:
        raise AnalysisBroken('%s: h_IMUL_RCP not found' % arch)
    where = '%s:%d' % (h.f['file'], h.f['line'])
    seen_noop = seen_mul = False
    for p in h.paths:
        at = [v for a, v in p['conds'] if a == 'isZeroOrPowerOf2(imm32)']
        if not at:
            R.violation('%s IMUL_RCP guard' % arch, where, expected='path guarded by isZeroOrPowerOf2(imm32)', found=[a for a, _ in p['conds']])
            continue
        if at[0]:
            seen_noop = True
            R.check(p['emits'] == 0 and not p['marks'] and not p['mark_all'], '%s IMUL_RCP no-op arm' % arch, where, expected='no emit, no mark', found='%d emits, marks %s' % (p['emits'], sorted(p['marks'])))
        else:
            seen_mul = True
            R.check(p['emits'] > 0 and p['marks'] == {'dst'}, '%s IMUL_RCP multiply arm' % arch, where, expected='emits and marks dst', found='%d emits, marks %s' % (p['emits'], sorted(p['marks'])))
    R.check(seen_noop and seen_mul, '%s IMUL_RCP both arms' % arch, where, expected='both arms present', found='noop %s mul %s' % (seen_noop, seen_mul))
    # divisor is zero-extended: local initialised from getImm32() with an unsigned type
    ok = False
    for x in walk(h.f['body']):
        if x['k'] == 'Decl':
            for d in x['d']:
                if 'init' in d and strip_all(d['init'])['k'] == 'Call' and strip_all(d['init']).get('name') == 'getImm32' and d['ty'].replace('const ', '') in ('unsigned long', 'unsigned int'):
                    ok = True
    R.check(ok, '%s IMUL_RCP divisor type' % arch, where, expected='unsigned local = instr.getImm32()', found=ok)
    # which reciprocal is used
    rc = [c.get('name') for c in calls(h.f['body']) if c.get('name', '').startswith('randomx_reciprocal')]
    R.check(rc in (['randomx_reciprocal_fast'], ['randomx_reciprocal']), '%s IMUL_RCP reciprocal routine' % arch, where, expected='randomx_reciprocal[_fast](divisor)', found=rc, rule='RCP-NOOP')


def rule_cbr_x86(ctx, R, FI):
    F, hs = handlers(ctx, 'x86')
    h = hs['CBRANCH']
    f = h.f
    where = '%s:%d' % (f['file'], f['line'])
    R.rule('CBR-BITS', 'x86 h_CBRANCH: for each of the 16 shifts the emitted 32-bit immediate has bit b set / bit b-1 clear and the test mask is ConditionMask << b; '
           'both stay below 2^31 so the sign-extending add/test encodings add no mask bits', min_instances=16)
    cm = F.const('randomx::ConditionMask')
    co = F.const('randomx::ConditionOffset')
    emits = [c for c in calls(f['body']) if c.get('name') == 'emit32']
    if len(emits) != 3:
        raise AnalysisBroken('x86 h_CBRANCH: expected 3 emit32 calls (imm, mask, jump displacement), found %d' % len(emits))
    for mc in range(16):
        ev = KBEval(F, {}, overrides={'randomx::Instruction::getModCond': KB.const(32, mc)})
        ev._exec(f['body'], [])
        b = mc + co
        imm = ev.ev(emits[0]['a'][0])
        mask = ev.ev(emits[1]['a'][0])
        R.check(imm.bit(b) == 1 and imm.bit(b - 1) == 0, 'x86 imm bits, shift %d' % b, loc(emits[0], f), expected='bit %d = 1, bit %d = 0' % (b, b - 1), found=repr(imm)[-(b + 4):])
        R.check(mask.value() == cm << b and (cm << b) < (1 << 31), 'x86 mask, shift %d' % b, loc(emits[1], f), expected=hex(cm << b), found=mask.hexpat())
    R.rule('CBR-TARGET', 'x86 h_CBRANCH: the register added to, tested and looked up in the last-writer table is instr.dst; the jump goes to instructionOffsets[lastWriter + 1]; '
           'tables are reset at the start of every compilation and every instruction offset is recorded before its handler runs', min_instances=5)
    # reg = instr.dst, target = registerUsage[reg] + 1
    regd = [d for x in walk(f['body']) if x['k'] == 'Decl' for d in x['d']]
    byname = {d['name']: d for d in regd}
    names = {d['id']: d['name'] for d in regd}
    ok_reg = 'reg' in byname and h.desc(byname['reg']['init']) == 'dst'
    tgt = [d for d in regd if 'init' in d and 'registerUsage' in show(d['init'])]
    ok_t = len(tgt) == 1 and showv(tgt[0]['init']) in ('(this->registerUsage[reg] + 1)',) and ok_reg
    R.check(ok_t, 'x86 target lookup', where, expected='target = registerUsage[instr.dst] + 1', found=[showv(d['init']) for d in tgt])
    eb = [c for c in calls(f['body']) if c.get('name') == 'emitByte']
    ok_b = len(eb) == 2 and all(showv(c['a'][0]) == '(192 + reg)' for c in eb)
    R.check(ok_b, 'x86 add/test operate on the branch register', where, expected='emitByte(0xc0 + reg) twice', found=[showv(c['a'][0]) for c in eb])
    disp = showv(emits[2]['a'][0])
    R.check(tgt and disp == '(this->instructionOffsets[%s] - (this->codePos + 4))' % tgt[0]['name'] or 'instructionOffsets' in disp and 'target' in disp, 'x86 jump displacement', loc(emits[2], f),
            expected='instructionOffsets[target] - (codePos + 4)', found=disp)
    R.check(h.paths[0]['mark_all'] == F.const('randomx::RegistersCount'), 'x86 marks all after branch', where, expected=8, found=h.paths[0]['mark_all'])
    pro = F.func('randomx::JitCompilerX86::generateProgramPrologue')
    g = astq.CFG(pro)
    clr = g.find_calls(lambda c: c.get('name') == 'clear' and 'instructionOffsets' in show(c.get('this')))
    gen = g.find_calls(lambda c: c.get('name') == 'generateCode')
    resets = [x for x in walk(pro['body']) if x['k'] == 'Assign' and 'registerUsage' in show(x['l']) and val(x['r']) == -1]
    R.check(len(clr) == 1 and len(gen) == 1 and g.dominates(clr[0][0], gen[0][0]) and len(resets) == 1, 'x86 tables reset before code generation', '%s:%d' % (pro['file'], pro['line']),
            expected='instructionOffsets.clear(); registerUsage[i] = -1 before the instruction loop', found='clear %d, resets %d' % (len(clr), len(resets)))
    gc = F.func('randomx::JitCompilerX86::generateCode')
    cs = [c for c in calls(gc['body'])]
    pb = [i for i, c in enumerate(cs) if c.get('name') == 'push_back' and showv(c['a'][0]) == 'this->codePos']
    R.check(bool(pb) and pb[0] == 0, 'x86 instruction offset recorded before the handler', '%s:%d' % (gc['file'], gc['line']), expected='instructionOffsets.push_back(codePos) first', found=[show(c)[:50] for c in cs])
    # pre-normalisation of register indices
    norm = [x for x in walk(pro['body']) if x['k'] == 'CAssign' and x['op'] == '%=' and val(x['r']) == 8]
    R.check(len(norm) == 2, 'x86 src/dst reduced mod 8 before handlers', '%s:%d' % (pro['file'], pro['line']), expected='instr.src %= 8; instr.dst %= 8', found=[show(x) for x in norm])


def rule_jitmask_x86(ctx, R):
    F, hs = handlers(ctx, 'x86')
    mk = decode.masks(F)
    R.rule('MEM-JITMASK', 'x86 address helpers choose among the same three mask constants under the same conditions as the decoder: genAddressReg -> mod.mem ? L1 : L2; '
           'genAddressRegDst -> mod.cond < 14 ? (mod.mem ? L1 : L2) : L3; genAddressImm -> imm32 & L3; handlers use them as the decoder uses the levels', min_instances=20)
    inv = {mk['L1']: 'L1', mk['L2']: 'L2', mk['L3']: 'L3'}

    def mask_table(f):
        """{frozenset of decided atoms: level of the last 32-bit word emitted on the path}: the same whether the choice is written as if / else or as ?:"""
        tab = {}
        for p in decoder.paths(f['body']):
            atoms = []
            for c, t in p.conds:
                c_ = strip_all(c)
                while c_['k'] == 'Cast':
                    c_ = strip_all(c_['e'])
                neg = False
                while c_['k'] == 'Un' and c_['op'] == '!':
                    neg = not neg
                    c_ = strip_all(c_['e'])
                if c_['k'] == 'Bin' and c_['op'] == '!=' and val(c_['r']) == 0:
                    c_ = strip_all(c_['l'])
                if c_['k'] == 'Call' and c_.get('name') == 'getModMem':
                    atoms.append(('mem', t != neg))
                elif c_['k'] == 'Bin' and c_['op'] in ('<', '>=') and strip_all(c_['l']).get('name') == 'getModCond' and val(c_['r']) is not None:
                    lt = (c_['op'] == '<') == (t != neg)
                    atoms.append(('cond<%d' % val(c_['r']), lt))
                else:
                    atoms.append((show(c_), t != neg))
            words = [c2 for e_ in p.events if not isinstance(e_, tuple) for c2 in calls(e_) if c2.get('name') == 'emit32']
            lvl = None
            if words:
                v_ = val(words[-1]['a'][0])
                lvl = inv.get(v_, 'const %s' % v_ if v_ is not None else decode.classify_mask(words[-1]['a'][0], mk))
            key = frozenset(a_ for a_ in atoms if a_[0] == 'mem' or a_[0].startswith('cond<'))      # other decisions (SIB byte, which temporary) do not choose the mask
            if key in tab and tab[key] != lvl:
                tab[key] = 'depends on %s' % sorted(a_[0] for a_ in atoms if a_ not in key)
            else:
                tab[key] = lvl
        return tab
    f = F.func('randomx::JitCompilerX86::genAddressReg')
    tab = mask_table(f)
    R.check(tab == {frozenset([('mem', True)]): 'L1', frozenset([('mem', False)]): 'L2'}, 'genAddressReg mask', '%s:%d' % (f['file'], f['line']), expected='mod.mem ? L1 : L2', found=sorted((sorted(k), v) for k, v in tab.items()))
    # (how the displacement is encoded is decided on the emitted bytes by X86-MEM-HSEM)
    f = F.func('randomx::JitCompilerX86::genAddressRegDst')
    tab = mask_table(f)
    slc_ = F.const('randomx::StoreL3Condition')
    want = {frozenset([('cond<%d' % slc_, True), ('mem', True)]): 'L1', frozenset([('cond<%d' % slc_, True), ('mem', False)]): 'L2', frozenset([('cond<%d' % slc_, False)]): 'L3'}
    R.check(tab == want, 'genAddressRegDst mask', '%s:%d' % (f['file'], f['line']), expected='getModCond() < 14 ? (mod.mem ? L1 : L2) : L3', found=sorted((sorted(k), v) for k, v in tab.items()))
    f = F.func('randomx::JitCompilerX86::genAddressImm')
    # (that the constant address of the src == dst form is imm32 & L3 mask, however it is encoded, is decided on the emitted bytes by X86-MEM-HSEM)
    # which helper each handler uses on which arm
    I = None
    for name, h in sorted(hs.items()):
        memi = name.endswith('_M') or name == 'ISTORE'
        for p in h.paths:
            helpers = [c.get('name') for c in p['helpers'] if c.get('name', '').startswith('genAddress')]
            if not memi:
                R.check(not helpers, 'x86 %s uses no address helper' % name, '%s:%d' % (h.f['file'], h.f['line']), expected=[], found=helpers)
                continue
            eq = ('dst != src', False) in p['conds']
            if name == 'ISTORE':
                exp = ['genAddressRegDst']
            elif eq:
                exp = ['genAddressImm']
            else:
                exp = ['genAddressReg']
            R.check(helpers == exp, 'x86 %s [%s]' % (name, ' && '.join(('' if v else '!') + a for a, v in p['conds']) or 'always'), '%s:%d' % (h.f['file'], h.f['line']), expected=exp, found=helpers)
        if name == 'ISTORE':
            # store goes to the dst-based address, value is src
            pass


def decode_x86_bytes(bs):
    """Tiny decoder for the two byte templates of h_CFROUND: returns a list of (mnemonic, imm) for
    and/or/test eax, imm32; anything else is returned as ('db', byte)."""
    out = []
    i = 0
    ops = {0x25: 'and eax', 0x0d: 'or eax', 0xa9: 'test eax'}
    while i < len(bs):
        b = bs[i]
        if b in ops and i + 5 <= len(bs):
            out.append((ops[b], int.from_bytes(bytes(bs[i + 1:i + 5]), 'little')))
            i += 5
        elif bs[i:i + 3] == [0x89, 0x04, 0x24]:
            out.append(('mov [rsp], eax', None))
            i += 3
        elif bs[i:i + 4] == [0x0f, 0xae, 0x14, 0x24]:
            out.append(('ldmxcsr [rsp]', None))
            i += 4
        else:
            out.append(('db', b))
            i += 1
    return out


def rule_cfr_x86(ctx, R, FI):
    F, hs = handlers(ctx, 'x86')
    h = hs['CFROUND']
    f = h.f
    where = '%s:%d' % (f['file'], f['line'])
    R.rule('CFR-SIB', 'x86 h_CFROUND: rotates so that the two mode bits land on MXCSR bits 13-14, applies the v2 test only under the v2 flag with the interpreter\'s bit mask (60) shifted by 13, '
           'and loads MXCSR with (x & 0x6000) | rx_mxcsr_default', min_instances=3)
    from rules.driver import reset_word, CSR_CTRL
    _f, _kb, _n = reset_word(F)
    if (_kb.ones | _kb.zeros) & CSR_CTRL != CSR_CTRL:
        raise AnalysisBroken('CFR-SIB: the interpreter reset word is not a constant (see FP-RESETWORD)')
    dflt = _kb.ones & CSR_CTRL
    arr = F.glob('randomx::AND_OR_MOV_LDMXCSR')
    bs = [val(e) for e in arr['init']['e']]
    dec = decode_x86_bytes(bs)
    if [m for m, _ in dec] != ['and eax', 'or eax', 'mov [rsp], eax', 'ldmxcsr [rsp]']:
        raise AnalysisBroken('AND_OR_MOV_LDMXCSR no longer decodes to and/or/mov/ldmxcsr: %s' % dec)
    R.check(dec[0][1] == 3 << 13, 'x86 CFROUND and-mask', '%s:%d' % (arr['file'], arr['line']), expected=hex(3 << 13), found=hex(dec[0][1]))
    R.check(dec[1][1] == dflt, 'x86 CFROUND or-constant', '%s:%d' % (arr['file'], arr['line']), expected=hex(dflt), found=hex(dec[1][1]))
    arr2 = F.glob('randomx::TEST_EAX_60SL13')
    dec2 = decode_x86_bytes([val(e) for e in arr2['init']['e']])
    if [m for m, _ in dec2] != ['test eax']:
        raise AnalysisBroken('TEST_EAX_60SL13 no longer decodes to test eax, imm32')
    # the interpreter's mask
    ex = FI.func('randomx::BytecodeMachine::exe_CFROUND')
    im = [val(x['r']) for x in walk(ex['body']) if x['k'] == 'Bin' and x['op'] == '&' and val(x['r']) is not None and val(x['r']) not in (63,) and 'lags' not in show(x['l'])]
    R.check(len(im) == 1 and dec2[0][1] == im[0] << 13, 'x86 CFROUND v2 test mask', '%s:%d' % (arr2['file'], arr2['line']), expected='interpreter mask %s << 13' % im, found=hex(dec2[0][1]))
    # rotation, v2 gate and the position of the MXCSR load are decided on the emitted bytes by X86-CFR-BITS (rules/x86hsem.py)
    from rules import x86hsem
    x86hsem.rule_cfround(ctx, R, FI)


def v2_gates(F, f):
    """conditions in f that test RANDOMX_FLAG_V2 (by folded enumerator value 64 on a flags member/param)."""
    out = []
    for x in walk(f['body']):
        if x['k'] in ('If', 'Cond'):
            s = show(x['c'])
            if 'RANDOMX_FLAG_V2' in s:
                out.append(x)
    return out
