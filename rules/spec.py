"""C02 rules: machine-readable statements of doc/specs.md compared with the source.
SPEC-CONFIG, SPEC-MASKS, SPEC-VMPROG, SPEC-REGFILE, SPEC-LOOP, SPEC-ARGON, SPEC-BLAKEGEN."""
import re

import astq
from astq import calls, loc, show, showv, strip_all, val, walk
from core import AnalysisBroken
from rules.driver import loop_trip, ref_id


def macro_int(F, name):
    m = F.macro(name)
    if m is None:
        return None
    b = m['body'].strip()
    try:
        return int(b, 0)
    except ValueError:
        return None


def rule_config(ctx, R, F):
    S = ctx.spec()
    t = S.table('1.2.1', ['parameter', 'description', 'default value'])
    R.rule('SPEC-CONFIG', 'every default of spec Table 1.2.1 equals the macro of configuration.h', min_instances=16)
    cfg = {}
    for r in t['rows']:
        name = S.code(r['_cells'][0])
        sv = S.code(r['_cells'][2])
        mname = 'RANDOMX_PROGRAM_SIZE_V1' if name == 'RANDOMX_PROGRAM_SIZE' else name
        m = F.macro(mname)
        if m is None:
            R.violation(name, 'doc/specs.md:%d' % r['_line'], expected='macro %s defined' % mname, found='missing')
            continue
        if sv.startswith('"'):
            R.eq(name, '%s:%d' % (m['file'], m['line']), sv, m['body'].strip())
        else:
            cfg[name] = int(sv)
            R.eq(name, '%s:%d' % (m['file'], m['line']), int(sv), macro_int(F, mname))
    R.rule('SPEC-MASKS', 'the scratchpad mask formulas of spec Table 4.2.1, evaluated with the configured sizes, equal ScratchpadL1Mask / L2Mask / L3Mask / L3Mask64', min_instances=4)
    t = S.table('4.2.1')
    names = {'L1': ('randomx::ScratchpadL1Mask', None), 'L2': ('randomx::ScratchpadL2Mask', None), 'L3': ('randomx::ScratchpadL3Mask', 'randomx::ScratchpadL3Mask64')}
    for r in t['rows']:
        lvl = r['_cells'][0]
        for col, q in ((1, names[lvl][0]), (2, names[lvl][1])):
            expr = S.code(r['_cells'][col])
            if expr == '-' or q is None:
                continue
            if not re.match(r'^[A-Z0-9_ ()&~\-]+$', expr):
                raise AnalysisBroken('spec Table 4.2.1: unexpected formula %r' % expr)
            v = eval(expr, {'__builtins__': {}}, dict(cfg))
            R.eq('%s %s' % (lvl, 'mask8' if col == 1 else 'mask64'), 'doc/specs.md:%d' % r['_line'], v, F.const(q))
    return cfg


def rule_vmprog(ctx, R, F):
    R.rule('SPEC-VMPROG', 'randomx_vm::initialize feeds configuration quadword i into exactly the register spec Tables 4.5.1 - 4.5.3 / 4.5.5 / 4.5.6 name, through the specified bit fields', min_instances=16)
    f = F.func('randomx_vm::initialize')
    R.saw(fn=f['q'], unit=f['_unit'])
    S = ctx.spec()
    t = S.table('4.5.1', ['quadword', 'description'])
    got = {}        # quadword -> (target, via)
    locals_ = {}
    for s in f['body']['s']:
        top = strip_all(s)
        if s['k'] == 'Decl':
            for d in s['d']:
                if 'init' in d:
                    e = [c for c in calls(d['init']) if c.get('name') == 'getEntropy']
                    if e:
                        locals_[d['id']] = val(e[0]['a'][0])
            continue
        ent = [c for c in calls(s) if c.get('name') == 'getEntropy']
        if top['k'] == 'Call' and top.get('name') == 'store64' and ent:
            tgt = show(strip_all(top['a'][0])['e']) if strip_all(top['a'][0])['k'] == 'Un' else show(top['a'][0])
            via = strip_all(top['a'][1]).get('name')
            got[val(ent[0]['a'][0])] = (tgt.replace('this->', ''), via)
        elif top['k'] == 'Assign' and ent:
            got[val(ent[0]['a'][0])] = (show(top['l']).replace('this->', ''), showv(top['r']))
    exp = {}
    for r in t['rows']:
        q = int(r['_cells'][0])
        d = r['_cells'][1]
        m = re.match(r'initialize (low|high) half of register `a(\d)`', d)
        if m:
            exp[q] = ('reg.a[%s].%s' % (m.group(2), 'lo' if m.group(1) == 'low' else 'hi'), 'getSmallPositiveFloatBits')
        elif 'register `ma`' in d:
            exp[q] = ('mem.ma', None)
        elif 'register `mx`' in d:
            exp[q] = ('mem.mx', None)
        elif 'reserved' in d:
            exp[q] = None
        elif 'address registers' in d:
            exp[q] = 'addr'
        elif 'Dataset offset' in d:
            exp[q] = ('datasetOffset', None)
        else:
            m = re.match(r'initialize register masks for (low|high) half', d)
            if m:
                exp[q] = ('config.eMask[%d]' % (0 if m.group(1) == 'low' else 1), 'getFloatMask')
            else:
                raise AnalysisBroken('spec Table 4.5.1: unrecognised row %r' % d)
    where = '%s:%d' % (f['file'], f['line'])
    for q, e in sorted(exp.items()):
        if e is None:
            R.check(q not in got and q not in locals_.values(), 'quadword %d reserved' % q, where, expected='unused', found=got.get(q))
        elif e == 'addr':
            R.check(q in locals_.values(), 'quadword %d selects address registers' % q, where, expected='local read of getEntropy(%d)' % q, found=sorted(locals_.values()))
        else:
            g = got.get(q)
            okv = g is not None and g[0] == e[0] and (e[1] is None or g[1] == e[1])
            R.check(okv, 'quadword %d -> %s' % (q, e[0]), where, expected=e, found=g)
    # bit fields
    cla = F.const('randomx::CacheLineAlignMask')
    R.check(got.get(8, (None, ''))[1] == '(this->program.getEntropy(8) & %d)' % cla, 'ma = quadword 8 (cache-line aligned low 32 bits)', where, expected='getEntropy(8) & CacheLineAlignMask', found=got.get(8))
    R.check(got.get(10, (None, ''))[1] == 'this->program.getEntropy(10)', 'mx = low 32 bits of quadword 10', where, expected='getEntropy(10)', found=got.get(10))
    mem = F.record('randomx::MemoryRegisters')
    tys = {fl['name']: fl['ty'] for fl in mem['fields']}
    R.check(tys.get('ma') == 'unsigned int' and tys.get('mx') == 'unsigned int', 'ma/mx are 32-bit', 'src/common.hpp', expected='uint32_t', found=tys)
    ex = int(F.macro('RANDOMX_DATASET_EXTRA_SIZE')['body'])
    R.check(got.get(13, (None, ''))[1] == '((this->program.getEntropy(13) %% %d) * 64)' % (ex // 64 + 1), 'datasetOffset = (quadword 13 mod (EXTRA/64 + 1)) * 64', where, expected='(getEntropy(13) %% %d) * 64' % (ex // 64 + 1), found=got.get(13))
    # address registers: readReg_k = 2k + bit k of quadword 12
    t3 = S.table('4.5.3')
    from domains import KB as _KB, KBEval as _KBEval
    base = []
    for i, r in enumerate(t3['rows']):
        m = re.match(r'`readReg(\d)` \((\d)\)', r['_cells'][0])
        r0 = int(re.sub(r'\D', '', r['_cells'][1]))
        r1 = int(re.sub(r'\D', '', r['_cells'][2]))
        if not m or r1 != r0 + 1 or int(m.group(2)) != i:
            raise AnalysisBroken('spec Table 4.5.3 row %r' % r['_cells'])
        base.append(r0)
    bad = None
    for low in range(16):
        q12 = _KB(64, (~low) & 15, low)          # bits 0-3 fixed, everything above unknown: the choice may depend on nothing else

        class _Ev(_KBEval):
            def call(self, n):
                if n.get('name') == 'getEntropy' and n.get('a') and val(n['a'][0]) is not None:
                    return q12 if val(n['a'][0]) == 12 else _KB.top(64)
                return _KBEval.call(self, n)
        ev = _Ev(F, {})
        try:
            ev._exec(f['body'], [])
        except AnalysisBroken:
            pass
        for k_, r0 in enumerate(base):
            got_ = ev.env.get('this->config.readReg%d' % k_)
            want_ = r0 + ((low >> k_) & 1)
            if got_ is None or got_.value() != want_:
                bad = (low, k_, got_.hexpat() if got_ is not None else None, want_)
                break
        if bad:
            break
    R.check(bad is None, 'address registers (Table 4.5.3)', where, expected='readReg_k = %s + bit k of entropy quadword 12, for all 16 values of its low four bits and independent of every other entropy bit' % base,
            found='bits %s: readReg%d = %s, expected %d' % (bin(bad[0]), bad[1], bad[2], bad[3]) if bad else 'as specified')
    # A registers: Table 4.5.2  fraction bits 0-51, exponent bits 59-63
    from domains import KB, KBEval

    def run(g, kb):
        r = KBEval(F, {g['params'][0]['id']: kb}).run_body(g)
        if r is None:
            raise AnalysisBroken('SPEC-VMPROG: cannot evaluate %s' % g['q'])
        return r

    def routed(g, lo, n, what):
        """entropy bits lo..lo+n-1 reach the same result bits unchanged, whatever the other entropy bits are (one unknown bit at a time, zero and one background)"""
        bad = []
        for k in range(lo, lo + n):
            for bg in (0, (1 << 64) - 1):
                kb = KB(64, ~bg & ((1 << 64) - 1) & ~(1 << k), bg & ~(1 << k))
                r = run(g, kb)
                if [i for i in range(64) if r.bit(i) is None] != [k]:
                    bad.append(k)
        R.check(not bad, what, '%s:%d' % (g['file'], g['line']), expected='entropy bit k -> result bit k for k in %d..%d' % (lo, lo + n - 1), found='mis-routed bits %s' % sorted(set(bad)) if bad else 'all routed')
    # A registers: Table 4.5.2  fraction bits 0-51, exponent = 1023 + entropy bits 59-63 (so A lies in [1, 2^32)), sign 0
    g = F.func('randomx::getSmallPositiveFloatBits')
    okA = True
    foundA = None
    for e5 in range(32):
        r = run(g, KB(64, (~(e5 << 59)) & (31 << 59), e5 << 59))
        hi = [r.bit(i) for i in range(52, 64)]
        want = 1023 + e5
        if None in hi or sum(b << i for i, b in enumerate(hi)) != want:
            okA = False
            foundA = (e5, r.hexpat())
            break
    R.check(okA, 'group A exponent field (Table 4.5.2)', '%s:%d' % (g['file'], g['line']), expected='sign 0, exponent 1023 + (entropy >> 59)', found=foundA or 'as specified for all 32 values')
    routed(g, 0, 52, 'group A fraction bits (Table 4.5.2)')
    # E masks: fraction bits 0-21 from the entropy, exponent bits 60-63 placed at exponent bits 4-7 over the constant 0b011....
    g = F.func('randomx::getFloatMask')
    okE = True
    foundE = None
    for e4 in range(16):
        r = run(g, KB(64, (~(e4 << 60)) & (15 << 60), e4 << 60))
        hi = [r.bit(i) for i in range(22, 64)]
        want = (0x300 | (e4 << 4)) << 30          # bits 22..63: 30 zero fraction bits, then the 12 sign/exponent bits
        if None in hi or sum(b << i for i, b in enumerate(hi)) != want:
            okE = False
            foundE = (e4, r.hexpat())
            break
    R.check(okE, 'group E mask exponent bits (4.5.6 / 4.3.2)', '%s:%d' % (g['file'], g['line']), expected='bits 52-63 = 0x300 | (entropy >> 60) << 4, bits 22-51 zero', found=foundE or 'as specified for all 16 values')
    routed(g, 0, 22, 'group E mask fraction bits (4.5.6)')


def rule_regfile(ctx, R, F):
    R.rule('SPEC-REGFILE', 'RegisterFile layout is r0-r7 | f0-f3 | e0-e3 | a0-a3 at byte offsets 0 / 64 / 128 / 192 (spec chapter 2); the fingerprint is written over the a registers (bytes 192-255) before the final Blake2b', min_instances=5)
    rf = F.record('randomx::RegisterFile')
    offs = {fl['name']: fl.get('off') for fl in rf['fields']}
    R.eq('RegisterFile offsets', '%s:%d' % (rf['file'], rf['line']), {'r': 0, 'f': 64, 'e': 128, 'a': 192}, offs)
    R.eq('sizeof(RegisterFile)', '%s:%d' % (rf['file'], rf['line']), 256, rf.get('size'))
    fp = F.record('randomx::fpu_reg_t')
    R.eq('fpu_reg_t layout', '%s:%d' % (fp['file'], fp['line']), {'lo': 0, 'hi': 8}, {fl['name']: fl.get('off') for fl in fp['fields']})
    pr = F.record('randomx::Program')
    pf = {fl['name']: (fl.get('off'), fl.get('arrlen')) for fl in pr['fields']}
    pmax = int(F.macro('RANDOMX_PROGRAM_MAX_SIZE')['body']) if F.macro('RANDOMX_PROGRAM_MAX_SIZE')['body'].isdigit() else max(int(F.macro('RANDOMX_PROGRAM_SIZE_V1')['body']), int(F.macro('RANDOMX_PROGRAM_SIZE_V2')['body']))
    R.eq('Program layout: 128 configuration bytes then the instruction words', '%s:%d' % (pr['file'], pr['line']), {'entropyBuffer': (0, 16), 'programBuffer': (128, pmax)}, pf)
    ins = F.record('randomx::Instruction')
    R.eq('Instruction word layout (Fig. 5.1)', '%s:%d' % (ins['file'], ins['line']), {'opcode': 0, 'dst': 1, 'src': 2, 'mod': 3, 'imm32': 4}, {fl['name']: fl.get('off') for fl in ins['fields']})
    gs = F.func('randomx::Program::getSize')
    rets = [x for x in walk(gs['body']) if x['k'] == 'Return']
    c = strip_all(rets[0]['e'])
    v1, v2 = int(F.macro('RANDOMX_PROGRAM_SIZE_V1')['body']), int(F.macro('RANDOMX_PROGRAM_SIZE_V2')['body'])
    R.check(c['k'] == 'Cond' and 'RANDOMX_FLAG_V2' in show(c['c']) and val(c['t']) == v2 and val(c['f']) == v1, 'program length by version', '%s:%d' % (gs['file'], gs['line']), expected='v2 ? %d : %d' % (v2, v1), found=showv(c))


def rule_loop(ctx, R, F):
    R.rule('SPEC-LOOP', 'InterpretedVm::execute performs the 13 steps of spec 4.6.2 in order (address mix, two 64-byte L3 reads, program, mp update with the v1/v2 alias, prefetch, dataset read at the saved ma, swap, '
           'integer store at spAddr1, F/E mix, float store at spAddr0, address reset), RANDOMX_PROGRAM_ITERATIONS times', min_instances=4)
    l3 = F.const('randomx::ScratchpadL3Mask64')
    cla = F.const('randomx::CacheLineAlignMask')
    iters = int(F.macro('RANDOMX_PROGRAM_ITERATIONS')['body'])
    for ex in F.funcs(r'^randomx::InterpretedVm<.*>::execute$'):
        R.saw(fn=ex['q'], unit=ex['_unit'])
        ren = {}
        for x in walk(ex['body']):
            if x['k'] == 'Decl':
                for d in x['d']:
                    if 'init' not in d:
                        continue
                    s = show(d['init'])
                    if s == 'this->mem.mx':
                        ren[d['id']] = 'spAddr0'
                    elif s == 'this->mem.ma':
                        ren[d['id']] = 'spAddr1'
                    elif 'readReg0' in s and 'readReg1' in s:
                        ren[d['id']] = 'spMix'
                    elif 'datasetOffset' in s:
                        ren[d['id']] = 'readPtr'
                    elif d.get('ty', '').endswith('&') and 'mem.' in s:
                        ren[d['id']] = 'mp'
                    elif d.get('ty') == 'randomx::NativeRegisterFile':
                        ren[d['id']] = 'nreg'
            if x['k'] == 'For' and x['init']['k'] == 'Decl':
                ren[x['init']['d'][0]['id']] = 'i'
        loops = [x for x in ex['body']['s'] if x['k'] == 'For']
        main = [x for x in loops if loop_trip(x) == iters]
        where = '%s:%d' % (ex['file'], ex['line'])
        if len(main) != 1:
            R.violation('%s main loop' % ex['q'].split('::')[1][:40], where, expected='one loop of %d iterations' % iters, found=[loop_trip(x) for x in loops])
            continue
        steps = []
        with astq.renaming(ren):
            for s in main[0]['b']['s']:
                if s['k'] == 'For':
                    steps.append('for %s: %s' % (loop_trip(s), showv(s['b'])))
                elif s['k'] == 'If':
                    steps.append('if %s' % showv(s['c']))
                else:
                    steps.append(showv(s))
        exp = [
            'unsigned long spMix = (nreg.r[this->config.readReg0] ^ nreg.r[this->config.readReg1])',
            '(spAddr0 ^= spMix)', '(spAddr0 &= %d)' % l3, '(spAddr1 ^= (spMix >> 32))', '(spAddr1 &= %d)' % l3,
            'for 8: (nreg.r[i] ^= load64(((this->scratchpad + spAddr0) + (8 * i))))',
            'for 4: (nreg.f[i] = rx_cvt_packed_int_vec_f128(((this->scratchpad + spAddr1) + (8 * i))))',
            'for 4: (nreg.e[i] = randomx::BytecodeMachine::maskRegisterExponentMantissa(this->config, rx_cvt_packed_int_vec_f128(((this->scratchpad + spAddr1) + (8 * (4 + i))))))',
            'randomx::BytecodeMachine::executeBytecode(this->bytecode, this->scratchpad, this->config, this.getFlags())',
            'const unsigned long readPtr = (this->datasetOffset + (this->mem.ma & %d))' % cla,
            'unsigned int & mp = (operator&(this.getFlags(), RANDOMX_FLAG_V2) ? this->mem.ma : this->mem.mx)',
            '(mp ^= (nreg.r[this->config.readReg2] ^ nreg.r[this->config.readReg3]))',
            'this.datasetPrefetch((this->datasetOffset + (mp & %d)))' % cla,
            'this.datasetRead(readPtr, nreg.r)',
            'std::swap<unsigned int>(this->mem.mx, this->mem.ma)',
            'for 8: store64(((this->scratchpad + spAddr1) + (8 * i)), nreg.r[i])',
            'if operator&(this.getFlags(), RANDOMX_FLAG_V2)',
            'for 4: _mm_store_pd(((this->scratchpad + spAddr0) + (16 * i)), nreg.f[i])',
            '(spAddr0 = 0)', '(spAddr1 = 0)',
        ]
        norm = [re.sub(r'\bstd::swap<[^>]*>', 'std::swap<unsigned int>', s.replace('rx_store_vec_f128', '_mm_store_pd')) for s in steps]
        v2 = F.enumerator('RANDOMX_FLAG_V2')
        norm = [re.sub(r'operator&\(([^,]+), %d\)' % v2, r'operator&(\1, RANDOMX_FLAG_V2)', s) for s in norm]
        R.eq('%s loop steps (spec 4.6.2)' % ex['q'].split('::')[1][:42], loc(main[0], ex), exp, norm)
        # the v1 arm of the F/E mix
        mix = [s for s in main[0]['b']['s'] if s['k'] == 'If']
        if mix:
            with astq.renaming(ren):
                v1 = ' ; '.join(showv(x) for x in walk(mix[0]['e']) if x['k'] == 'Assign')
            R.check('nreg.f[i] = _mm_xor_pd(nreg.f[i], nreg.e[i])' in v1 or 'nreg.f[i] = rx_xor_vec_f128(nreg.f[i], nreg.e[i])' in v1, '%s v1 mix' % ex['q'].split('::')[1][:42], loc(mix[0], ex), expected='f[i] = f[i] xor e[i]', found=v1[:120])


def rule_argon(ctx, R, F):
    R.rule('SPEC-ARGON', 'the Argon2 context / instance built in initCache has the parameters of spec Table 7.1.1 (lanes, memory, iterations, version 0x13, type d, password = key, salt, no secret / associated data, no output)', min_instances=10)
    f = F.func('randomx::initCache')
    R.saw(fn=f['q'], unit=f['_unit'])
    asg = {}
    ren = {p['id']: 'P%d' % i for i, p in enumerate(f['params'])}
    with astq.renaming(ren), astq.nocasts():
        for x in walk(f['body']):
            if x['k'] == 'Assign':
                asg.setdefault(show(x['l']), []).append(showv(x['r']))
            elif x['k'] == 'Decl':
                for d_ in x['d']:
                    if 'init' in d_ and d_.get('name'):
                        asg.setdefault(d_['name'], []).append(showv(d_['init']))      # `T x = e;` is the assignment x = e
    S = ctx.spec()
    t = S.table('7.1.1', ['parameter', 'value'])
    cfg = {n: macro_int(F, n) for n in ('RANDOMX_ARGON_LANES', 'RANDOMX_ARGON_MEMORY', 'RANDOMX_ARGON_ITERATIONS')}
    salt = F.macro('RANDOMX_ARGON_SALT')['body'].strip()
    saltlen = F.const('randomx::ArgonSaltSize')
    where = '%s:%d' % (f['file'], f['line'])
    for r in t['rows']:
        p, v = r['_cells'][0], S.code(r['_cells'][1])
        if p == 'parallelism':
            R.eq('lanes', where, [str(cfg[v])], asg.get('context.lanes'))
        elif p == 'output size':
            R.eq('output size', where, [v], asg.get('context.outlen'))
            R.eq('output buffer', where, ['nullptr'], asg.get('context.out'))
        elif p == 'memory':
            R.eq('memory', where, [str(cfg[v])], asg.get('context.m_cost'))
        elif p == 'iterations':
            R.eq('iterations', where, [str(cfg[v])], asg.get('context.t_cost'))
        elif p == 'version':
            R.eq('version', where, [str(int(v, 16))], asg.get('context.version'))
        elif p == 'hash type':
            ty = F.enumerator('Argon2_d')
            R.check(asg.get('instance.type') in (['Argon2_d'], [str(ty)]) and ty == int(v.split()[0]), 'hash type', where, expected='Argon2_d = %s' % v.split()[0], found='%s = %s' % (asg.get('instance.type'), ty))
        elif p == 'password':
            R.eq('password', where, (['P1'], ['P2']), (asg.get('context.pwd'), asg.get('context.pwdlen')))
        elif p == 'salt':
            R.check(len(asg.get('context.salt', [])) == 1 and asg['context.salt'][0].strip('"') == eval(salt) and asg.get('context.saltlen') == [str(saltlen)] and saltlen == len(eval(salt)), 'salt', where,
                    expected='%s (%d bytes)' % (salt, len(eval(salt))), found=(asg.get('context.salt'), asg.get('context.saltlen')))
        elif p == 'secret size':
            R.eq('secret', where, (['0'], ['nullptr']), (asg.get('context.secretlen'), [x.replace('__null', 'nullptr').replace('NULL', 'nullptr') for x in asg.get('context.secret', [])]))
        elif p.startswith('assoc'):
            R.eq('associated data', where, (['0'], ['nullptr']), (asg.get('context.adlen'), [x.replace('__null', 'nullptr') for x in asg.get('context.ad', [])]))
        else:
            raise AnalysisBroken('spec Table 7.1.1: unknown parameter %r' % p)
    # the instance runs over the cache memory with those parameters
    R.eq('instance memory', where, ['P0->memory'], [x for x in asg.get('instance.memory', []) if 'P0' in x])
    R.eq('instance passes/blocks/lanes', where, (['context.t_cost'], ['memory_blocks'], ['context.lanes']), (asg.get('instance.passes'), asg.get('instance.memory_blocks'), asg.get('instance.lanes')))
    R.eq('memory_blocks', where, ['context.m_cost'], asg.get('memory_blocks'))
    cs = [c.get('name') for c in calls(f['body']) if 'argon2' in c.get('name', '')]
    R.eq('argon2 call sequence', where, ['randomx_argon2_validate_inputs', 'randomx_argon2_initialize', 'randomx_argon2_fill_memory_blocks'] if 'randomx_argon2_validate_inputs' in cs else ['randomx_argon2_initialize', 'randomx_argon2_fill_memory_blocks'], cs)
    cs_ = F.const('randomx::CacheSize')
    R.eq('CacheSize = memory x 1 KiB', 'src/common.hpp', cfg['RANDOMX_ARGON_MEMORY'] * 1024, cs_)


def rule_blakegen(ctx, R, F):
    R.rule('SPEC-BLAKEGEN', 'BlakeGenerator (spec 3.5): 64-byte state = key truncated to 60 bytes, zero padded, nonce at offset 60; first use re-hashes; refill when fewer than the requested bytes remain; 1- and 4-byte little-endian outputs; '
           'initCache seeds it with the same (key, keySize) it gives Argon2', min_instances=6)
    c = F.func('randomx::Blake2Generator::Blake2Generator')
    R.saw(fn=c['q'], unit=c['_unit'])
    ren = {p['id']: 'P%d' % i for i, p in enumerate(c['params'])}
    mss = F.const('randomx::maxSeedSize')
    R.eq('maxSeedSize', '%s:%d' % (c['file'], c['line']), 60, mss)
    with astq.renaming(ren):
        body = [showv(s) for s in c['body']['s']]
        inits = [(i.get('member'), showv(i['e'])) for i in c.get('inits', []) if i.get('written')]
    import slice as _slc0

    class _CH:
        """memory model of the 64-byte state while the constructor runs: byte -> ('zero',) / ('seed', k) / ('nonce', k)"""
        DATA, SEED = 0x5000, 0x9000

        def __init__(self):
            self.mem = {}
            self.bad = []

        def leaf(self, n, env, sl):
            n0 = strip_all(n)
            s_ = show(n0)
            if n0['k'] == 'Un' and n0.get('op') == '&':
                e_ = strip_all(n0['e'])
                if e_['k'] == 'Idx' and (show(e_['b']).endswith('->data') or show(e_['b']).endswith('.data')):
                    i_ = sl.ev(e_['i'], env)
                    return None if i_ is None else self.DATA + i_
            if s_.endswith('->data') or s_.endswith('.data'):
                return self.DATA
            return None

        def store(self, n, env, sl):
            l = strip_all(n['l'])
            if l['k'] == 'Idx' and (show(l['b']).endswith('->data') or show(l['b']).endswith('.data')):
                i_ = sl.ev(l['i'], env)
                if i_ is None or not 0 <= i_ < 64:
                    self.bad.append('store to data[%s]' % i_)
                else:
                    self.mem[i_] = ('other',)

        def call(self, n, args, env, sl):
            nm = n.get('name') or ''
            if nm == 'memset' and None not in args[:3]:
                for k_ in range(args[2]):
                    a_ = args[0] + k_ - self.DATA
                    if 0 <= a_ < 64:
                        self.mem[a_] = ('zero',) if args[1] == 0 else ('fill', args[1])
                    else:
                        self.bad.append('memset outside the state')
            elif nm == 'memcpy' and None not in args[:3]:
                for k_ in range(args[2]):
                    a_ = args[0] + k_ - self.DATA
                    if 0 <= a_ < 64:
                        self.mem[a_] = ('seed', args[1] + k_ - self.SEED)
                    else:
                        self.bad.append('memcpy outside the state')
            elif nm == 'store32' and args and args[0] is not None:
                for k_ in range(4):
                    a_ = args[0] + k_ - self.DATA
                    if 0 <= a_ < 64:
                        self.mem[a_] = ('nonce', k_)
                    else:
                        self.bad.append('store32 outside the state')
            return None
    badc = None
    for n_ in (0, 1, 31, 59, 60, 61, 64, 200):
        hc = _CH()
        slc_ = _slc0.Slice(F, hc, {}, limit=5000, what='SPEC-BLAKEGEN')
        try:
            slc_.run(c['body'], {c['params'][0]['id']: hc.SEED, c['params'][1]['id']: n_, c['params'][2]['id']: 0x77})
        except _slc0.NeedChoice as e_:
            raise AnalysisBroken('SPEC-BLAKEGEN: the constructor branches on %s' % e_.key)
        want_ = {}
        for k_ in range(64):
            want_[k_] = ('seed', k_) if k_ < min(n_, 60) else (('nonce', k_ - 60) if k_ >= 60 else ('zero',))
        if (hc.mem != want_ or hc.bad) and badc is None:
            diff_ = [k_ for k_ in range(64) if hc.mem.get(k_) != want_[k_]]
            badc = 'seed size %d: %s' % (n_, hc.bad[:1] or ['byte %d is %s, expected %s' % (diff_[0], hc.mem.get(diff_[0]), want_[diff_[0]])])
    R.check(badc is None, 'constructor', '%s:%d' % (c['file'], c['line']), expected='state = seed[0 .. min(size, 60)) || zeros || nonce (little endian) at 60..63, for seed sizes 0 .. 200', found=badc or 'as specified')
    R.eq('dataIndex starts exhausted', '%s:%d' % (c['file'], c['line']), [('dataIndex', '64')], inits)
    rec = F.record('randomx::Blake2Generator')
    R.eq('state size', '%s:%d' % (rec['file'], rec['line']), [('data', 64)], [(fl['name'], fl.get('arrlen')) for fl in rec['fields'] if fl['name'] == 'data'])
    ck = F.func('randomx::Blake2Generator::checkData')
    import slice as _slc

    class _H:
        def __init__(self, idx):
            self.idx = idx
            self.refills = []

        def leaf(self, n, env, sl):
            s_ = show(strip_all(n))
            if s_.endswith('dataIndex'):
                return self.idx
            if s_.endswith('->data') or s_.endswith('.data'):
                return 0x5000
            return None

        def store(self, n, env, sl):
            if show(strip_all(n['l'])).endswith('dataIndex'):
                v = sl.ev(n['r'], env)
                if n['k'] == 'Assign' and v is not None:
                    self.idx = v
                else:
                    self.idx = None

        def call(self, n, args, env, sl):
            if (n.get('name') or '').endswith('blake2b'):
                self.refills.append(tuple(args[:4]))
            return None
    badr = None
    for idx in range(0, 65):
        for need in (1, 4, 8):
            h_ = _H(idx)
            sl_ = _slc.Slice(F, h_, {}, limit=2000, what='SPEC-BLAKEGEN')
            try:
                sl_.run(ck['body'], {ck['params'][0]['id']: need})
            except _slc.NeedChoice as e_:
                raise AnalysisBroken('SPEC-BLAKEGEN: checkData depends on %s' % e_.key)
            want_refill = idx + need > 64
            ok_ = (len(h_.refills) == (1 if want_refill else 0)) and h_.idx == (0 if want_refill else idx) and all(r_ == (0x5000, 64, 0x5000, 64) for r_ in h_.refills)
            if not ok_ and badr is None:
                badr = (idx, need, len(h_.refills), h_.idx, h_.refills[:1])
    R.check(badr is None, 'refill rule', '%s:%d' % (ck['file'], ck['line']), expected='data = Hash512(data) and dataIndex = 0 exactly when dataIndex + n > 64 (every dataIndex 0..64, n in {1, 4, 8})',
            found='dataIndex %d, n %d: %d refill(s), dataIndex afterwards %s %s' % badr if badr else 'as specified')
    class _AH(_H):
        """accessors: which state bytes are returned and where the index ends up"""

        def leaf(self, n, env, sl):
            n0 = strip_all(n)
            if n0['k'] == 'Idx' and (show(n0['b']).endswith('->data') or show(n0['b']).endswith('.data')):
                i_ = self.index_of(n0['i'], env, sl)
                return None if i_ is None else 0x100000 + i_        # "the byte at i"
            if n0['k'] == 'Un' and n0.get('op') == '&':
                e_ = strip_all(n0['e'])
                if e_['k'] == 'Idx' and (show(e_['b']).endswith('->data') or show(e_['b']).endswith('.data')):
                    i_ = self.index_of(e_['i'], env, sl)
                    return None if i_ is None else 0x5000 + i_
            return _H.leaf(self, n, env, sl)

        def index_of(self, i, env, sl):
            i0 = strip_all(i)
            if i0['k'] == 'Un' and '++' in i0.get('op', '') and show(strip_all(i0['e'])).endswith('dataIndex'):
                v = self.idx
                if v is not None:
                    self.idx = v + 1
                return v if i0.get('post') else self.idx
            return sl.ev(i, env)

        def store(self, n, env, sl):
            if n['k'] == 'CAssign' and show(strip_all(n['l'])).endswith('dataIndex'):
                v = sl.ev(n['r'], env)
                op = n['op'][:-1]
                self.idx = None if (v is None or self.idx is None or op not in '+-') else (self.idx + v if op == '+' else self.idx - v)
                return
            _H.store(self, n, env, sl)

        def call(self, n, args, env, sl):
            nm = n.get('name') or ''
            if nm == 'checkData':
                return ('inline', ck)
            if nm == 'load32' and args and args[0] is not None:
                return ('value', 0x200000 + (args[0] - 0x5000))         # "the little-endian word at i"
            return _H.call(self, n, args, env, sl)

    for fname, width, tag in (('getByte', 1, 0x100000), ('getUInt32', 4, 0x200000)):
        gf = F.func('randomx::Blake2Generator::' + fname)
        bada = None
        for idx in range(0, 65):
            h_ = _AH(idx)
            sl_ = _slc.Slice(F, h_, {}, limit=2000, what='SPEC-BLAKEGEN')
            try:
                ret = sl_.run(gf['body'], {})
            except _slc.NeedChoice as e_:
                raise AnalysisBroken('SPEC-BLAKEGEN: %s depends on %s' % (fname, e_.key))
            start = idx if idx + width <= 64 else 0
            rv = ret[1] if ret is not None and ret[0] == 'ret' else None
            ok_ = rv == tag + start and h_.idx == start + width and len(h_.refills) == (0 if idx + width <= 64 else 1)
            if not ok_ and bada is None:
                bada = 'dataIndex %d: returns %s, dataIndex afterwards %s, %d refill(s)' % (idx, ('state bytes at %d' % (rv - tag)) if isinstance(rv, int) and rv >= tag else rv, h_.idx, len(h_.refills))
        R.check(bada is None, fname, '%s:%d' % (gf['file'], gf['line']), expected='returns the %d state byte(s) at the current index (after a refill when fewer than %d remain: index 0) and advances the index by %d' % (width, width, width), found=bada or 'as specified')
    ic = F.func('randomx::initCache')
    cons = [x for x in walk(ic['body']) if x['k'] == 'Construct' and 'Blake2Generator' in (x.get('ctor') or '')]
    with astq.renaming({p['id']: 'P%d' % i for i, p in enumerate(ic['params'])}):
        args = [showv(a) for a in cons[0]['a']] if cons else None
    R.check(args is not None and args[:2] == ['P1', 'P2'] and (len(args) < 3 or args[2] == '0'), 'generator seeded with the key', '%s:%d' % (ic['file'], ic['line']), expected='Blake2Generator(key, keySize) with nonce 0', found=args)
