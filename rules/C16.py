"""C16 Secure mode never exposes writable-and-executable JIT pages (decided whole for the Linux build)."""
import astq
from rules import wx, jitcross

LEVEL = 'proof'
TECHNIQUE = 'whole-library call-graph reachability over LLVM IR (virtual / function-pointer calls resolved by type) + constant propagation of protection arguments + RW/RX typestate on the CFG of every secure instantiation'
CLAIM = ('Proof by exhaustive static enumeration, for the Linux/x86-64 build, that no protection request with WRITE and EXEC can be issued on any API sequence that creates only '
         'secure VMs, nor for cache-owned code buffers: (1) every mmap/mprotect request of the library has constant protection, and the only function introducing W+X is setPagesRWX; '
         '(2) setPagesRWX is unreachable from every member function of every secure VM instantiation, from the cache/dataset API and from all JitCompiler members except enableAll; '
         '(3) randomx_create_vm selects the secure instantiation exactly when RANDOMX_FLAG_SECURE is set and never re-enters creation with altered flags, and nothing else constructs compiled VMs; '
         '(4) in every secure method and in initCacheCompile code generation happens between enableWriting and enableExecution. Obligations = sites + reachability queries + class cases + bracket points.'
         ' For the A64 and RV64 back-ends (which this host does not compile) the RW / RX / RWX helpers behind enableWriting / enableExecution / enableAll and the mapping sizes are checked on the cross-parsed AST, and their secure instantiations never call enableAll (WX-ARCH).')
LEVEL_NOTE = ('Trusted base: clang 14 AST/IR for these units with the build flags; type-based resolution of indirect calls (over-approximate); the kernel honours mprotect; '
              'no other library code changes page protections (closed by WX-SITES over all units and the absence of syscall instructions in the .S file). The A64/RV64 back-ends are covered by C19/C20.')
TRUSTED_BASE = ['clang 14 front end and -O0 lowering', 'type-based indirect-call resolution (sound over-approximation for reachability)', 'Linux mprotect/mmap semantics',
                'hand-written assembly contains no system call (checked)']
EXPLANATION = 'WX-SITES, WX-REACH, WX-CLASS, WX-BRACKET over the linked IR of all 25 units and the resolved AST of randomx.cpp, vm_compiled*.cpp, dataset.cpp, jit_compiler_x86.cpp. WX-ARCH for K2 / K3.'


def run(ctx, R):
    F = astq.Facts(ctx, 'K0')
    R.saw(config='K0')
    M, wxf = wx.rule_sites(ctx, R)
    wx.rule_reach(ctx, R, M, wxf)
    wx.rule_class(ctx, R, F)
    wx.rule_bracket(ctx, R, F)
    jitcross.rule_life_wx_arch(ctx, R, 'a64')
    jitcross.rule_life_wx_arch(ctx, R, 'rv64')
