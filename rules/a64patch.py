"""[A64-PATCHLEN] every patch site of the A64 code template is rewritten completely by every program.

generateProgram / generateProgramLight move the write position into the pre-assembled template (`codePos = <label> - <template start>`) and overwrite a few
instructions there.  The template bytes at such a site are whatever the previous program left, so the number of words written after each repositioning must not depend on
the program, the configuration or the dataset offset: one word fewer leaves an instruction of an earlier program in place.  Decided by enumerating the paths of each
region between two repositionings and counting the words each path emits (helpers: the set of counts over their own paths)."""
import astq
from astq import calls, loc, show, strip_all, val, walk
from core import AnalysisBroken
import decoder
from rules import jit
from rules.driver import loop_trip, ref_id

VAR = 'variable'


def _sumsets(a, b):
    if VAR in a or VAR in b:
        return {VAR}
    out = set(x + y for x in a for y in b)
    if len(out) > 64:
        return {VAR}
    return out


class Counter:
    def __init__(self, F, cls):
        self.F = F
        self.cls = cls
        self.memo = {}

    def func(self, fq):
        if fq in self.memo:
            return self.memo[fq]
        self.memo[fq] = {VAR}      # recursion guard
        f = self.F.func(fq)
        self.memo[fq] = self.stmt(f['body'])
        return self.memo[fq]

    def call_counts(self, c):
        nm = c.get('name')
        if nm == 'emit32':
            return {1}
        if nm == 'emit64':
            return {2}
        fn = c.get('fn') or ''
        if 'callee' in c and not fn:
            return {VAR}
        if fn.startswith(self.cls + '::') and self.F.has_func(fn) and self.F.func(fn).get('body') is not None:
            return self.func(fn)
        return {0}

    def node(self, e):
        tot = {0}
        for c in calls(e):
            tot = _sumsets(tot, self.call_counts(c))
        return tot

    def stmt(self, s):
        out = set()
        for p in decoder.paths(s):
            tot = {0}
            for e in p.events:
                if isinstance(e, tuple):
                    kind, nd = e[0], e[1]
                    if kind == 'loop':
                        body = self.stmt(nd['b']) if astq.is_node(nd.get('b')) else {0}
                        hdr = {0}
                        for key in ('init', 'c', 'inc'):
                            if astq.is_node(nd.get(key)):
                                hdr = _sumsets(hdr, self.node(nd[key]))
                        if body == {0} and hdr == {0}:
                            continue
                        try:
                            n = loop_trip(nd)
                        except Exception:
                            n = None
                        if n is None or VAR in body or hdr != {0}:
                            tot = {VAR}
                        else:
                            for _ in range(n):
                                tot = _sumsets(tot, body)
                    elif kind == 'switch':
                        if self.node(nd) != {0}:
                            tot = {VAR}
                    continue
                tot = _sumsets(tot, self.node(e))
            out |= tot
        return out


def rule_patchlen(ctx, R):
    F, hs = jit.handlers(ctx, 'a64')
    cls = 'randomx::JitCompilerA64'
    R.rule('A64-PATCHLEN', 'in generateProgram / generateProgramLight the number of instruction words written after each repositioning of the write position into the code template is the same on every path '
           '(it may not depend on the program, the configuration or the dataset offset), so no instruction of an earlier program survives in a patch site; the one variable-length region, the translated '
           'instructions, ends with an emitted unconditional branch', min_instances=8)
    R.saw(config='K2', unit='src/jit_compiler_a64.cpp')
    C = Counter(F, cls)
    total = 0
    for name in ('generateProgram', 'generateProgramLight'):
        f = F.func('%s::%s' % (cls, name))
        R.saw(fn=f['q'])
        stmts = f['body']['s']
        # the write position: the variable handed to emit32 by reference
        pos_ids = set()
        for c in calls(f['body']):
            if c.get('name') == 'emit32' and len(c.get('a', [])) >= 3:
                pos_ids.add(ref_id(c['a'][2]))
        pos_ids.discard(None)
        if len(pos_ids) != 1:
            raise AnalysisBroken('A64-PATCHLEN: %s passes %d different position variables to emit32' % (name, len(pos_ids)))
        pid = pos_ids.pop()
        regions, cur, start = [], [], None
        for s in stmts:
            t = strip_all(s)
            is_set = (t['k'] == 'Assign' and ref_id(t['l']) == pid) or (s['k'] == 'Decl' and any(d.get('id') == pid for d in s['d']))
            nested_set = not is_set and any(x['k'] == 'Assign' and ref_id(x['l']) == pid for x in walk(s))
            if nested_set:
                raise AnalysisBroken('A64-PATCHLEN: %s repositions the write position inside a nested statement at %s' % (name, loc(s, f)))
            if is_set:
                if start is not None:
                    regions.append((start, cur))
                start, cur = s, []
            elif start is not None:
                cur.append(s)
        if start is not None:
            regions.append((start, cur))
        for start, body in regions:
            comp = {'k': 'Compound', 's': body}
            dispatch = any('callee' in c and not c.get('fn') for c in calls(comp))
            t = strip_all(start)
            what = show(t['r'])[:70] if t['k'] == 'Assign' else show([d for d in start['d'] if d.get('id') == pid][0].get('init'))[:70]
            inst = '%s: region at %s' % (name, what)
            if dispatch:
                # variable length by nature: closed by a branch so that what follows is never reached by falling through
                emits = [c for s in body for c in calls(s) if c.get('name') == 'emit32' and ref_id(c['a'][2]) == pid]
                closes = bool(emits) and any(y['k'] == 'Ref' and (y.get('q') or '').endswith('ARMV8A::B') for y in walk(emits[-1]['a'][0]))
                total += 1
                R.check(closes, inst, loc(start, f), expected='the translated instructions are followed by an emitted unconditional branch', found='closed by b' if closes else 'last emitted word is not a branch')
                continue
            counts = C.stmt(comp)
            total += 1
            R.check(len(counts) == 1 and VAR not in counts, inst, loc(start, f), expected='the same number of words on every path',
                    found='%s word(s) on every path' % sorted(counts)[0] if len(counts) == 1 and VAR not in counts else 'the number of words written depends on the path: %s' % sorted(counts, key=str))
    if total < 8:
        raise AnalysisBroken('A64-PATCHLEN: only %d regions found' % total)
