"""C01 rules: VM-DISPATCH, DS-COMPOSE, V2-GATES, DS-ASM-MP."""
import re

import astq
from astq import calls, loc, show, showv, strip_all, val, walk
from core import AnalysisBroken
from rules.common import strip_targs
from rules.driver import ref_id


def class_bits(atyq):
    """(family, light, allocator, softAes, secure) of a VM class name"""
    m = re.match(r'^randomx::(Interpreted|Compiled)(Light)?Vm<(.*)>$', atyq or '')
    if not m:
        return None
    args = m.group(3)
    parts = []
    depth = 0
    cur = ''
    for ch in args:
        if ch == '<':
            depth += 1
        elif ch == '>':
            depth -= 1
        if ch == ',' and depth == 0:
            parts.append(cur.strip())
            cur = ''
        else:
            cur += ch
    parts.append(cur.strip())
    alloc = 'large' if 'LargePageAllocator' in parts[0] else 'aligned' if 'AlignedAllocator' in parts[0] else parts[0]
    soft = parts[1] == 'true'
    secure = parts[2] == 'true' if len(parts) > 2 else None
    return dict(jit=m.group(1) == 'Compiled', light=bool(m.group(2)), alloc=alloc, soft=soft, secure=secure)


def rule_dispatch(ctx, R, F):
    R.rule('VM-DISPATCH', 'randomx_create_vm: all 16 values of flags & (FULL_MEM | JIT | HARD_AES | LARGE_PAGES) have a case (default: UNREACHABLE is dead); each `new T(flags)` under a case has template arguments equal to the flag bits of its label: '
           'Compiled <=> JIT, Light <=> !FULL_MEM, softAes <=> !HARD_AES, LargePageAllocator <=> LARGE_PAGES; the constructor receives the caller\'s flags', min_instances=40)
    f = F.func('randomx_create_vm', unit='src/randomx.cpp')
    R.saw(fn=f['q'], unit='src/randomx.cpp')
    fl = {n: F.enumerator('RANDOMX_FLAG_' + n) for n in ('FULL_MEM', 'JIT', 'HARD_AES', 'LARGE_PAGES', 'SECURE')}
    sws = [x for x in walk(f['body']) if x['k'] == 'Switch']
    if len(sws) != 1:
        raise AnalysisBroken('randomx_create_vm: expected one switch')
    sw = sws[0]
    mask = fl['FULL_MEM'] | fl['JIT'] | fl['HARD_AES'] | fl['LARGE_PAGES']
    with astq.renaming({f['params'][0]['id']: 'FLAGS'}), astq.nocasts():
        cond = showv(sw['c'])
    R.check(cond in ('operator&(FLAGS, %d)' % mask, '(FLAGS & %d)' % mask), 'switch selector', loc(sw, f), expected='flags & (FULL_MEM|JIT|HARD_AES|LARGE_PAGES) = flags & %d' % mask, found=cond)
    groups = {}
    cur = None
    for s in sw['b']['s']:
        x = s
        lab = None
        while x['k'] in ('Case', 'Default'):
            lab = 'default' if x['k'] == 'Default' else val(x['lhs'])
            x = x['sub']
        if lab is not None:
            cur = groups.setdefault(lab, [])
        if cur is not None:
            cur.append(x)
    labels = sorted(k for k in groups if k != 'default')
    want = sorted(a | b | c | d for a in (0, fl['FULL_MEM']) for b in (0, fl['JIT']) for c in (0, fl['HARD_AES']) for d in (0, fl['LARGE_PAGES']))
    R.eq('case labels cover all 16 combinations', loc(sw, f), want, labels)
    fid = f['params'][0]['id']
    for lab in labels:
        news = [x for st in groups[lab] for x in walk(st) if x['k'] == 'New']
        jit = bool(lab & fl['JIT'])
        R.check(len(news) == (2 if jit else 1), 'case %d: allocations' % lab, loc(groups[lab][0], f), expected='%d new-expression(s)' % (2 if jit else 1), found=len(news))
        for n in news:
            cb = class_bits(n.get('atyq'))
            exp = dict(jit=jit, light=not (lab & fl['FULL_MEM']), alloc='large' if lab & fl['LARGE_PAGES'] else 'aligned', soft=not (lab & fl['HARD_AES']))
            got = {k: cb[k] for k in exp} if cb else None
            R.check(got == exp, 'case %d: new %s' % (lab, strip_targs(n.get('atyq') or '?') + ('<%s>' % n['atyq'].split('<', 1)[1][:-1] if n.get('atyq') and '<' in n['atyq'] else '')), loc(n, f), expected=exp, found=got)
            cons = n.get('init')
            args = cons.get('a', []) if cons else []
            R.check(len(args) == 1 and ref_id(args[0]) == fid, 'case %d: constructor receives flags' % lab, loc(n, f), expected='T(flags)', found=[show(a) for a in args])
            if jit and cb:
                R.check(cb['secure'] is not None, 'case %d: compiled class has a secureJit parameter' % lab, loc(n, f), expected='bool', found=cb['secure'])
        last = groups[lab][-1]
        R.check(last['k'] == 'Break', 'case %d ends with break (no fall-through)' % lab, loc(last, f), expected='break', found=last['k'])
    # after construction (normal, non-throwing flow: the rest of the try block followed by what comes after it): on every path a non-null cache is bound
    # and its key recorded, a non-null dataset is bound, and the VM is allocated -- wherever these statements sit and however they are grouped
    import decoder as _dec
    tries = [x for x in walk(f['body']) if x['k'] == 'Try']
    if len(tries) != 1:
        raise AnalysisBroken('VM-DISPATCH: expected one try block in randomx_create_vm')
    top = f['body']['s']
    after_try = top[[i for i, x in enumerate(top) if x is tries[0]][0] + 1:] if any(x is tries[0] for x in top) else []
    flow = {'k': 'Compound', 's': list(tries[0]['b']['s'][1:]) + list(after_try)}
    cid, did = f['params'][1]['id'], f['params'][2]['id']
    vm_ids = set()
    for x in walk(f['body']):
        if x['k'] == 'Decl':
            for d_ in x['d']:
                if 'randomx_vm' in (d_.get('ty') or '') and '*' in (d_.get('ty') or ''):
                    vm_ids.add(d_['id'])

    def pev(n, asg):
        """truth of a pointer test under {decl id: non-null?}; None = not a pointer test"""
        n = strip_all(n)
        if n['k'] == 'Bin' and n['op'] in ('&&', '||'):
            a_, b_ = pev(n['l'], asg), pev(n['r'], asg)
            if n['op'] == '&&':
                return False if (a_ is False or b_ is False) else (None if None in (a_, b_) else True)
            return True if (a_ is True or b_ is True) else (None if None in (a_, b_) else False)
        if n['k'] == 'Un' and n.get('op') == '!':
            a_ = pev(n['e'], asg)
            return None if a_ is None else not a_
        if n['k'] == 'Bin' and n['op'] in ('!=', '=='):
            for x_, y_ in ((n['l'], n['r']), (n['r'], n['l'])):
                xs, ys = strip_all(x_), strip_all(y_)
                while xs['k'] == 'Cast':
                    xs = strip_all(xs['e'])
                while ys['k'] == 'Cast':
                    ys = strip_all(ys['e'])
                if xs['k'] == 'Ref' and xs.get('id') in asg and (ys['k'] == 'Null' or val(ys) == 0):
                    return asg[xs['id']] == (n['op'] == '!=')
            return None
        while n['k'] == 'Cast':
            n = strip_all(n['e'])
        if n['k'] == 'Ref' and n.get('id') in asg:
            return asg[n['id']]
        return None
    bad = []
    npaths = 0
    all_paths = _dec.paths(flow)
    with astq.renaming({p['id']: 'P%d' % i for i, p in enumerate(f['params'])}), astq.nocasts():
        for c_nn in (False, True):
            for d_nn in (False, True):
                asg = {cid: c_nn, did: d_nn}
                for v_ in vm_ids:
                    asg[v_] = True          # normal flow: the new-expression did not throw
                for p_ in all_paths:
                    if any(pev(c_, asg) not in (None, t_) for c_, t_ in p_.conds):
                        continue
                    npaths += 1
                    evs = [showv(e_) for e_ in p_.events if not isinstance(e_, tuple)]
                    has = lambda sub: any(sub in e_ for e_ in evs)
                    keycopy = any('cacheKey' in e_ and 'P1->cacheKey' in e_ for e_ in evs)
                    what = 'cache %s, dataset %s: ' % ('non-null' if c_nn else 'null', 'non-null' if d_nn else 'null')
                    if c_nn and not has('setCache(P1)'):
                        bad.append(what + 'setCache missing')
                    if c_nn and has('setCache(P1)') and not keycopy:
                        bad.append(what + 'the key of the bound cache is not recorded')
                    if not c_nn and has('setCache(P1)'):
                        bad.append(what + 'setCache called')
                    if d_nn and not has('setDataset(P2)'):
                        bad.append(what + 'setDataset missing')
                    if not d_nn and has('setDataset(P2)'):
                        bad.append(what + 'setDataset called')
                    if not has('.allocate()') and not has('->allocate()'):
                        bad.append(what + 'allocate() missing')
    R.check(not bad and npaths >= 4, 'bind and allocate on every path', '%s:%d' % (f['file'], f['line']), expected='cache != nullptr -> setCache + key copy; dataset != nullptr -> setDataset; allocate() always', found=sorted(set(bad)) or '%d paths' % npaths)


DS_TABLE = {
    # (class family, method) -> allowed forms of reads of datasetOffset / assignments of mem.memory, one line of reason each
    'randomx_vm::initialize': ['write'],                                   # the only writer of datasetOffset
    'randomx::InterpretedVm::execute': ['read:readPtr', 'read:prefetch'],   # offset added to the masked ma (read) and masked mp (prefetch)
    'randomx::CompiledVm::run': ['read:base'],                             # offset folded once into the base pointer handed to the native code
    'randomx::CompiledLightVm::run': ['read:arg'],                         # offset passed to generateProgramLight (emitted as item-number addend)
}


def rule_compose(ctx, R, F):
    R.rule('DS-COMPOSE', 'the dataset item address is base + datasetOffset + (ma & mask) with each term applied exactly once in each of the four engine x mode classes: every read of datasetOffset and every assignment of mem.memory is one of the '
           'tabulated forms; the x86 light-mode code adds datasetOffset / 64 to the item number once', min_instances=20)
    seen = {}
    for f in F.all_funcs():
        if not f.get('body') or not re.search(r'(randomx_vm|Vm<)', f['q']):
            continue
        key = strip_targs(f['q'])
        for x in walk(f['body']):
            if x['k'] == 'Mem' and x['m'] == 'datasetOffset':
                seen.setdefault(key, []).append((f, x))
    for key, uses in sorted(seen.items()):
        allowed = DS_TABLE.get(key)
        f0 = uses[0][0]
        if allowed is None:
            R.violation('datasetOffset used in %s' % key, loc(uses[0][1], f0), expected='only in %s' % sorted(DS_TABLE), found='%d uses' % len(uses))
            continue
    for f in F.all_funcs():
        key = strip_targs(f['q'])
        if key not in DS_TABLE or not f.get('body'):
            continue
        R.saw(fn=f['q'], unit=f['_unit'])
        inst = f['q'].split('::', 1)[1][:70] if '::' in f['q'] else f['q']
        with astq.nocasts():
            if key == 'randomx_vm::initialize':
                w = [showv(x) for x in walk(f['body']) if x['k'] in ('Assign', 'CAssign') and show(x['l']) == 'this->datasetOffset']
                R.check(len(w) == 1, inst + ': single write of datasetOffset', '%s:%d' % (f['file'], f['line']), expected=1, found=w)
            elif key == 'randomx::InterpretedVm::execute':
                cla = F.const('randomx::CacheLineAlignMask')
                forms = sorted(showv(x) for x in walk(f['body']) if x['k'] == 'Bin' and x['op'] == '+' and show(x['l']) == 'this->datasetOffset')
                exp = sorted(['(this->datasetOffset + (this->mem.ma & %d))' % cla, '(this->datasetOffset + (mp & %d))' % cla])
                R.eq(inst + ': offset + masked address', '%s:%d' % (f['file'], f['line']), exp, forms)
                n = len([x for x in walk(f['body']) if x['k'] == 'Mem' and x['m'] == 'datasetOffset'])
                R.check(n == 2, inst + ': datasetOffset read twice (read, prefetch)', '%s:%d' % (f['file'], f['line']), expected=2, found=n)
            elif key == 'randomx::CompiledVm::run':
                a = [showv(x) for x in walk(f['body']) if x['k'] == 'Assign' and show(x['l']) == 'this->mem.memory']
                R.eq(inst + ': base pointer includes the offset once', '%s:%d' % (f['file'], f['line']), ['(this->mem.memory = (this->datasetPtr->memory + this->datasetOffset))'], a)
            elif key == 'randomx::CompiledLightVm::run':
                cs = [showv(c) for c in calls(f['body']) if c.get('name') == 'generateProgramLight']
                R.eq(inst + ': offset handed to the light-mode generator', '%s:%d' % (f['file'], f['line']), ['this->compiler.generateProgramLight(this->program, this->config, this->datasetOffset)'], cs)
    # mem.memory assignments elsewhere carry no offset
    for f in F.funcs(r'::(setDataset|setCache)$'):
        if not f.get('body'):
            continue
        with astq.renaming({f['params'][0]['id']: 'ARG'}), astq.nocasts():
            a = [showv(x['r']) for x in walk(f['body']) if x['k'] == 'Assign' and show(x['l']) == 'this->mem.memory']
        if a:
            R.check(a == ['ARG->memory'], '%s: base pointer without offset' % strip_targs(f['q']) + f['q'][f['q'].find('<'):f['q'].rfind('>') + 1][:50], '%s:%d' % (f['file'], f['line']), expected=['ARG->memory'], found=a)
    # x86 light mode: add ebx, datasetOffset/64 ; interpreted light: address / 64
    g = F.func('randomx::JitCompilerX86::generateProgramLight')
    with astq.renaming({p['id']: 'P%d' % i for i, p in enumerate(g['params'])}), astq.nocasts():
        cs = [showv(c) for c in calls(g['body']) if c.get('name') in ('emit', 'emit32', 'emitByte')]
    okx = False
    for i, c in enumerate(cs):
        if c.endswith('emit(randomx::ADD_EBX_I)') and i + 1 < len(cs) and cs[i + 1].endswith('emit32((P2 / 64))'):
            okx = True
    n_off = len([x for x in walk(g['body']) if x['k'] == 'Ref' and x.get('id') == g['params'][2]['id']])
    R.check(okx and n_off == 1, 'x86 light mode adds datasetOffset / 64 to the item number once', '%s:%d' % (g['file'], g['line']), expected='emit(ADD_EBX_I); emit32(datasetOffset / CacheLineSize)', found=[c for c in cs if 'P2' in c or 'ADD_EBX' in c])
    arr = F.glob('randomx::ADD_EBX_I')
    R.eq('ADD_EBX_I encodes add ebx, imm32', '%s:%d' % (arr['file'], arr['line']), [0x81, 0xc3], [val(e) for e in arr['init']['e']])
    g2 = F.func('randomx::JitCompilerX86::generateProgram')
    n_off = len([x for x in walk(g2['body']) if 'datasetOffset' in (x.get('n') or '')])
    R.check(n_off == 0, 'x86 full mode adds no offset in generated code', '%s:%d' % (g2['file'], g2['line']), expected='offset only through the base pointer', found=n_off)


def rule_v2gates(ctx, R, F):
    R.rule('V2-GATES', 'each engine tests RANDOMX_FLAG_V2 on its own copy of the flags at the five points where v1 and v2 differ: program length, mp alias in full mode, mp alias in light mode, F/E mix, CFROUND; '
           'the AES flavour of the v2 mix follows HARD_AES', min_instances=10)
    v2 = F.enumerator('RANDOMX_FLAG_V2')
    hard = F.enumerator('RANDOMX_FLAG_HARD_AES')

    def gates(f, flagexpr):
        out = []
        for x in walk(f['body']):
            if x['k'] in ('If', 'Cond'):
                with astq.nocasts():
                    s = showv(x['c'])
                if re.search(r'(operator&\(|\()%s[, &]+%d\)' % (re.escape(flagexpr), v2), s):
                    out.append(x)
        return out
    interp = [('randomx::Program::getSize', 'flags', 'program length'), ('randomx::BytecodeMachine::exe_CFROUND', 'flags', 'CFROUND')]
    for q, fe, what in interp:
        f = F.func(q)
        pid = [p['id'] for p in f['params'] if p['name'] == fe or 'randomx_flags' in p['ty']]
        with astq.renaming({pid[0]: 'FLAGSVAR'} if pid else {}):
            g = gates(f, 'FLAGSVAR')
        R.check(len(g) == 1, 'interpreter: %s gate' % what, '%s:%d' % (f['file'], f['line']), expected='one test of flags & V2', found=len(g))
    for ex in F.funcs(r'^randomx::InterpretedVm<.*>::execute$'):
        g = gates(ex, 'this.getFlags()')
        R.check(len(g) == 2, '%s: mp alias + F/E mix gates' % ex['q'].split('::')[1][:42], '%s:%d' % (ex['file'], ex['line']), expected=2, found=len(g))
        cp = [c for c in calls(ex['body']) if c.get('name') == 'compileProgram']
        eb = [c for c in calls(ex['body']) if c.get('name') == 'executeBytecode']
        with astq.nocasts():
            okf = len(cp) == 1 and len(eb) == 1 and show(cp[0]['a'][-1]) in ('this->vmFlags', 'this.getFlags()') and show(eb[0]['a'][-1]) in ('this->vmFlags', 'this.getFlags()')
        R.check(okf, '%s: decoder and executor get the VM flags' % ex['q'].split('::')[1][:42], '%s:%d' % (ex['file'], ex['line']), expected='compileProgram(.., vmFlags); executeBytecode(.., getFlags())', found=[show(c['a'][-1]) for c in cp + eb])
    x86 = [('generateProgram', 1, 'mp alias, full mode'), ('generateProgramLight', 1, 'mp alias, light mode'), ('generateProgramEpilogue', 2, 'F/E mix (+ soft-AES tail)'), ('h_CFROUND', 1, 'CFROUND')]
    for name, n, what in x86:
        f = F.func('randomx::JitCompilerX86::' + name)
        g = gates(f, 'this->vmFlags')
        R.check(len(g) >= n, 'x86: %s gate' % what, '%s:%d' % (f['file'], f['line']), expected='>= %d tests of vmFlags & V2' % n, found=len(g))
    pro = F.func('randomx::JitCompilerX86::generateProgramPrologue')
    gs = [c for c in calls(pro['body']) if c.get('name') == 'getSize']
    with astq.nocasts():
        R.check(len(gs) == 1 and show(gs[0]['a'][0]) == 'this->vmFlags', 'x86: program length follows vmFlags', '%s:%d' % (pro['file'], pro['line']), expected='prog.getSize(vmFlags)', found=[show(c) for c in gs])
    # which fragment under which arm
    f = F.func('randomx::JitCompilerX86::generateProgram')
    arms = {}
    for x in gates(f, 'this->vmFlags'):
        with astq.nocasts():
            arms['v2'] = [showv(c['a'][1]) for c in calls(x['t']) if c.get('name') == 'memcpy']
            arms['v1'] = [showv(c['a'][1]) for c in calls(x['e']) if c.get('name') == 'memcpy'] if x.get('e') else []
    R.eq('x86 full mode fragment choice', '%s:%d' % (f['file'], f['line']), {'v2': ['randomx::codeReadDatasetV2'], 'v1': ['randomx::codeReadDataset']}, arms)
    f = F.func('randomx::JitCompilerX86::generateProgramLight')
    arms = {}
    for x in gates(f, 'this->vmFlags'):
        with astq.nocasts():
            arms['v2'] = [showv(c['a'][0]) for c in calls(x['t']) if c.get('name') == 'emit']
            arms['v1'] = [showv(c['a'][0]) for c in calls(x['e']) if c.get('name') == 'emit'] if x.get('e') else []
    R.eq('x86 light mode fragment choice', '%s:%d' % (f['file'], f['line']), {'v2': ['randomx::codeReadDatasetLightSshInitV2'], 'v1': ['randomx::codeReadDatasetLightSshInit']}, arms)
    f = F.func('randomx::JitCompilerX86::generateProgramEpilogue')
    import decoder as _dec
    frag = set()
    with astq.nocasts():
        for p in _dec.paths(f['body'], record_conds=True):
            cs = []
            for e_ in p.events:
                if isinstance(e_, tuple):
                    if e_[0] == 'cond':
                        cshow = showv(e_[1])
                        if str(v2) in cshow and 'lags' in cshow:
                            cs.append(('V2', e_[2]))
                        elif str(hard) in cshow and 'lags' in cshow:
                            cs.append(('HARD', e_[2]))
                    continue
                for c in calls(e_):
                    if c.get('name') == 'memcpy' and 'codeLoopStore' in show(c['a'][1]):
                        frag.add((tuple(dict.fromkeys(cs)), showv(c['a'][1])))
    norm = sorted(frag)
    exp = sorted([((('V2', True), ('HARD', True)), 'randomx::codeLoopStoreHardAes'), ((('V2', True), ('HARD', False)), 'randomx::codeLoopStoreSoftAes'), ((('V2', False),), 'randomx::codeLoopStore')])
    R.eq('x86 store fragment choice', '%s:%d' % (f['file'], f['line']), [[list(map(list, a)), b] for a, b in exp], [[list(map(list, a)), b] for a, b in norm])
    # compiler flag copy: setFlags stores into the field the generators test
    sf = F.func('randomx::JitCompilerX86::setFlags')
    with astq.renaming({sf['params'][0]['id']: 'P0'}):
        R.eq('JitCompilerX86::setFlags', '%s:%d' % (sf['file'], sf['line']), ['(this->vmFlags = P0)'], [showv(s) for s in sf['body']['s']])


def simulate_mp(insns):
    """Abstract interpretation of a dataset-read fragment on the (low, high) halves of rbp.
    Entry: ebp (low) = ma, high = mx, eax = X (zero-extended mix of the two address registers)."""
    lo, hi = 'ma', 'mx'
    regs = {}
    read_tag = prefetch_tag = item_tag = None
    for off, mn, ops, raw in insns:
        o = [x.strip() for x in ops.split(',')] if ops else []
        if mn == 'mov' and len(o) == 2 and o[1] == 'ebp' and re.match(r'^e[a-d]x$', o[0]):
            regs[o[0]] = lo
        elif mn == 'ror' and o[:1] == ['rbp']:
            if o[1] not in ('0x20', '32'):
                return dict(error='unexpected rotate %s' % ops)
            lo, hi = hi, lo
        elif mn == 'xor' and o == ['rbp', 'rax']:
            lo = lo + '^X'
        elif mn == 'xor' and o and o[0] in ('rbp', 'ebp'):
            return dict(error='unexpected write to rbp: %s' % raw.strip())
        elif mn in ('mov', 'add', 'sub', 'and', 'or', 'shl', 'shr', 'lea') and o and o[0] in ('rbp', 'ebp'):
            return dict(error='unexpected write to rbp: %s' % raw.strip())
        elif mn in ('and', 'shr') and o and o[0] in regs:
            pass
        elif mn == 'xor' and len(o) == 2 and '[rdi+' in o[1]:
            m = re.search(r'\[rdi\+(r[a-d]x)', o[1])
            if m:
                t = regs.get('e' + m.group(1)[1:])
                read_tag = t if read_tag in (None, t) else 'MIXED'
        elif mn.startswith('prefetch') and '[rdi+' in ops:
            m = re.search(r'\[rdi\+(r[a-d]x)', ops)
            if m:
                prefetch_tag = regs.get('e' + m.group(1)[1:])
    if 'ebx' in regs:
        item_tag = regs['ebx']
    return dict(low=lo, high=hi, read=read_tag, prefetch=prefetch_tag, item=item_tag)


def rule_asm_mp(ctx, R):
    R.rule('DS-ASM-MP', 'abstract interpretation of the four hand-written dataset-read fragments on the two halves of rbp: the item is read at the unmodified ma (mt) and the fragment leaves '
           '(ma, mx) = (mx ^ X, ma) for v1 and (mx, ma ^ X) for v2, i.e. spec 4.6.2 steps 5-8 with mp = mx (v1) / ma (v2)', min_instances=4)
    o = ctx.obj('x86')
    frs = [('randomx_program_read_dataset', 'randomx_program_read_dataset_v2', 'v1', 'full'), ('randomx_program_read_dataset_v2', 'randomx_program_read_dataset_sshash_init', 'v2', 'full'),
           ('randomx_program_read_dataset_sshash_init', 'randomx_program_read_dataset_sshash_init_v2', 'v1', 'light'), ('randomx_program_read_dataset_sshash_init_v2', 'randomx_program_read_dataset_sshash_fin', 'v2', 'light')]
    for a, b, ver, mode in frs:
        st = simulate_mp(o.between(a, b))
        exp = dict(low='mx^X', high='ma') if ver == 'v1' else dict(low='mx', high='ma^X')
        if mode == 'full':
            exp.update(read='ma')
            pf = 'mx^X' if ver == 'v1' else 'ma^X'
            if 'error' not in st and st.get('prefetch') != pf:
                # a hint: prefetching another line costs time and changes no result
                R.note('DS-ASM-MP: %s prefetches at %s, the line read by the next iteration is at %s (a performance matter, not a result)' % (a, st.get('prefetch'), pf))
        else:
            exp.update(item='ma')
        got = {k: st.get(k) for k in exp} if 'error' not in st else st
        R.check(got == exp, '%s (%s, %s mode)' % (a, ver, mode), 'src/jit_compiler_x86_static.S', expected=exp, found=got)
    # eax/rax at the fragments' entry is the zero-extended 32-bit mix: emitted by generateProgramPrologue as mov eax, r; xor eax, r
    # (REX_MOV_RR = 41 8b : mov r32, r/m32 ; REX_XOR_EAX = 41 33 : xor r32, r/m32 -> 32-bit ops zero-extend)


# ---------------------------------------------------------------------------------------------------------------------------
# [VM-INITORDER] what randomx_vm::initialize() derives from the program is not read by run() before initialize() was called
def rule_initorder(ctx, R, F):
    from astq import CFG, walk, strip_all, show, loc
    R.rule('VM-INITORDER', 'randomx_vm::initialize() derives per-program state from the freshly generated program (dataset offset, ma / mx, group A registers, configuration); in every run() of the VM classes no statement that '
           'reads one of the members initialize() assigns may execute before the call (a read placed in front of it sees the previous program\'s value, or an indeterminate one for the first program)', min_instances=3)
    init = F.func('randomx_vm::initialize')

    def path(n):
        n = strip_all(n)
        out = []
        while n['k'] in ('Mem', 'Idx', 'Cast'):
            if n['k'] == 'Mem':
                out.append(n.get('m'))
                n = strip_all(n['b'])
            elif n['k'] == 'Idx':
                n = strip_all(n['b'])
            else:
                n = strip_all(n['e'])
        if n['k'] in ('This',) or (n['k'] == 'Ref' and n.get('n') == 'this') or show(n) == 'this':
            return tuple(reversed(out))
        return None
    written = set()
    for x in walk(init['body']):
        if x['k'] in ('Assign', 'CAssign'):
            p = path(x['l'])
            if p:
                written.add(p[:2])
        if x['k'] == 'Call' and x.get('name') in ('store64', 'store32'):
            a0 = strip_all(x['a'][0])
            while a0['k'] == 'Cast':
                a0 = strip_all(a0['e'])
            if a0['k'] == 'Un' and a0.get('op') == '&':
                p = path(a0['e'])
                if p:
                    written.add(p[:2])
    if ('datasetOffset',) not in written or len(written) < 4:
        raise AnalysisBroken('VM-INITORDER: the members assigned by randomx_vm::initialize() were not recognised (%s)' % sorted(written))
    R.saw(fn=init['q'])
    n = 0
    seen = set()
    for f in F.all_funcs():
        if f['name'] != 'run' or f.get('body') is None or '/src/vm_' not in f['file'] or (f['q'], f['file'], f['line']) in seen:
            continue
        seen.add((f['q'], f['file'], f['line']))
        g = CFG(f)
        ic = g.find_calls(lambda c: c.get('fn') == 'randomx_vm::initialize')
        if not ic:
            continue
        n += 1
        R.saw(fn=f['q'])
        inode = ic[0][0]
        bad = []
        for nd in g.nodes:
            st = nd.get('stmt')
            if st is None or not astq.is_node(st) or nd['id'] == inode:
                continue
            if g.dominates(inode, nd['id']):
                continue
            targets = set()
            for x in walk(st):
                if x['k'] == 'Assign':
                    targets.add(id(strip_all(x['l'])))
            for x in walk(st):
                if x['k'] == 'Mem' and id(x) not in targets:
                    p = path(x)
                    if p and (p[:2] in written or p[:1] in written):
                        bad.append('%s at %s' % ('.'.join(p), loc(x, f)))
        R.check(not bad, '%s reads per-program state only after initialize()' % f['q'][:70], '%s:%d' % (f['file'], f['line']), expected='every read of %s dominated by the call of initialize()' % sorted('.'.join(p) for p in written)[:6],
                found=sorted(set(bad))[:4] or 'all reads after the call')
    if n < 3:
        raise AnalysisBroken('VM-INITORDER: only %d run() functions that call initialize()' % n)
