"""C16 rules: WX-SITES, WX-REACH, WX-CLASS, WX-BRACKET (DESIGN.md section 4, C16)."""
import re

import astq
import irq
from astq import CFG, calls, loc, show, showv, strip_all, val, walk
from core import AnalysisBroken
from rules.common import strip_targs

PROT_WRITE, PROT_EXEC = 2, 4
PROT_ARG = {'mmap': 2, 'mmap64': 2, 'mprotect': 2, 'pkey_mprotect': 2, 'mremap': None, 'syscall': None, 'shmat': None, 'remap_file_pages': 2,
            'VirtualProtect': 2, 'VirtualAlloc': 3}


def const_args(M, f, op, depth=0, seen=None):
    """Set of constants an integer operand may take, following parameters back to all call sites.
    Returns (set of ints, list of (function, call loc) where each constant is introduced, unknown flag)."""
    seen = seen if seen is not None else set()
    vals, unknown = [], False
    if 'c' in op:
        return [(op['c'], f['name'], None)], False
    if 'a' in op and depth < 5:
        key = (f['name'], op['a'])
        if key in seen:
            return [], False
        seen.add(key)
        found_caller = False
        for g in M.defined():
            for i, names, kind in M.callees(g):
                if f['name'] in names:
                    found_caller = True
                    if op['a'] < len(i['ops']):
                        v, u = const_args(M, g, i['ops'][op['a']], depth + 1, seen)
                        for (c, fn, l) in v:
                            vals.append((c, fn, l or i.get('loc')))
                        unknown = unknown or u
                    else:
                        unknown = True
        if not found_caller and not f.get('internal'):
            unknown = True      # externally visible function never called inside the library
        return vals, unknown
    if 'v' in op:
        i = M.inst[f['name']].get(op['v'])
        if i is not None and i['op'] in ('or', 'and', 'add') and all('c' in o for o in i['ops']):
            a, b = i['ops'][0]['c'], i['ops'][1]['c']
            return [({'or': a | b, 'and': a & b, 'add': a + b}[i['op']], f['name'], i.get('loc'))], False
        if i is not None and i['op'] in ('phi', 'select'):
            ops = i['ops'] if i['op'] == 'phi' else i['ops'][1:]
            for o in ops:
                v, u = const_args(M, f, o, depth + 1, seen)
                vals += v
                unknown = unknown or u
            return vals, unknown
        if i is not None and i['op'] in ('zext', 'sext', 'trunc'):
            return const_args(M, f, i['ops'][0], depth + 1, seen)
    return [], True


def rule_sites(ctx, R):
    """Every protection-changing request of the library and its constant."""
    R.rule('WX-SITES', 'every call of mmap / mprotect / (mremap, pkey_mprotect, syscall ...) in any unit of the library has a protection argument that folds to '
           'constants at its (transitive) call sites; the functions in which a constant with WRITE|EXEC is introduced are the W+X request sites; '
           'no raw syscall instruction in the hand-written assembly', min_instances=4)
    M = irq.Module(ctx.ir())
    wx_funcs = {}
    nsites = 0
    for f in M.defined():
        for i in M.insts(f):
            cal = i.get('callee')
            if cal in PROT_ARG:
                nsites += 1
                idx = PROT_ARG[cal]
                if idx is None:
                    R.violation('%s in %s' % (cal, f['dem']), i.get('loc', '?'), expected='no raw mremap/syscall/shmat in the library', found=cal)
                    continue
                vals, unknown = const_args(M, f, i['ops'][idx])
                if unknown or not vals:
                    R.violation('%s in %s' % (cal, f['dem']), i.get('loc', '?'), expected='protection argument is a compile-time constant at every call site', found='non-constant')
                    continue
                for (c, fn, l) in sorted(set(vals)):
                    wx = bool(c & PROT_WRITE) and bool(c & PROT_EXEC)
                    R.ok('%s(prot=%d) introduced in %s' % (cal, c, M.fn[fn]['dem']), l or i.get('loc', '?'), detail='W+X request site' if wx else 'not W+X')
                    if wx:
                        wx_funcs[fn] = (c, l or i.get('loc'))
    if nsites < 3:
        raise AnalysisBroken('WX-SITES: only %d mmap/mprotect call sites found in the IR (expected allocMemoryPages, allocLargePagesMemory, pageProtect)' % nsites)
    o = ctx.obj('x86')
    sysc = [x for x in o.insns if x[1] in ('syscall', 'sysenter', 'int')]
    R.check(not sysc, 'no syscall instruction in jit_compiler_x86_static.S', 'src/jit_compiler_x86_static.S', expected='none', found=[x[3] for x in sysc][:3])
    return M, wx_funcs


SECURE_RX = re.compile(r'^randomx::Compiled(Light)?Vm<.*, (true|false), true>::')
CACHE_ENTRIES = ['randomx_alloc_cache', 'randomx_init_cache', 'randomx_release_cache', 'randomx_init_dataset', 'randomx_get_cache_memory',
                 'randomx_alloc_dataset', 'randomx_release_dataset', 'randomx_get_dataset_memory', 'randomx_dataset_item_count',
                 'randomx_calculate_hash', 'randomx_calculate_hash_first', 'randomx_calculate_hash_next', 'randomx_calculate_hash_last',
                 'randomx_vm_set_cache', 'randomx_vm_set_dataset', 'randomx_calculate_commitment', 'randomx_get_flags']


def rule_reach(ctx, R, M, wx_funcs):
    R.rule('WX-REACH', 'no W+X request site is reachable (call graph with virtual and function-pointer calls resolved by type) from any member function of a secure VM '
           'instantiation, from the cache / dataset API, from the JitCompiler constructor, destructor, generators or RW/RX switches; only the four non-secure CompiledVm '
           'constructors reach it', min_instances=20)
    if not wx_funcs:
        R.ok('no W+X request site in the library', 'whole library', detail='nothing can request W+X')
        return
    # reverse reachability: who can reach a W+X site
    callers = {}
    for f in M.defined():
        for i, names, kind in M.callees(f):
            for c in names:
                callers.setdefault(c, set()).add((f['name'], i.get('loc'), kind))
    can_reach = {}
    work = list(wx_funcs)
    for w in work:
        can_reach[w] = None
    while work:
        n = work.pop()
        for (p, l, kind) in callers.get(n, ()):
            if p not in can_reach:
                can_reach[p] = (n, l, kind)
                work.append(p)

    def path(n):
        out = []
        while n is not None:
            nxt = can_reach[n]
            out.append(M.fn[n]['dem'] + ('' if nxt is None else ' @%s' % nxt[1]))
            n = nxt[0] if nxt else None
        return out
    secure_members = [f for f in M.defined() if SECURE_RX.search(f['dem'])]
    if len(secure_members) < 16:
        raise AnalysisBroken('WX-REACH: only %d member functions of secure VM instantiations in the IR' % len(secure_members))
    for f in secure_members:
        R.check(f['name'] not in can_reach, 'secure member ' + f['dem'], '%s:%s' % (f.get('file'), f.get('line')), expected='cannot reach a W+X request', found=path(f['name']) if f['name'] in can_reach else 'unreachable')
    for name in CACHE_ENTRIES:
        if name not in M.fn:
            raise AnalysisBroken('API function %s not in the IR' % name)
        if name in ('randomx_vm_set_cache', 'randomx_vm_set_dataset', 'randomx_calculate_hash', 'randomx_calculate_hash_first', 'randomx_calculate_hash_next', 'randomx_calculate_hash_last'):
            # these dispatch virtually on the VM: for a secure VM only secure members run, which are checked above; here check the direct (non-virtual) part
            direct = M.reachable([name], edge_filter=lambda n, i, c, kind: kind != 'virtual')
            bad = [n for n in direct if n in wx_funcs]
            R.check(not bad, 'API ' + name + ' (non-virtual part)', '%s:%s' % (M.fn[name].get('file'), M.fn[name].get('line')), expected='no W+X request outside VM methods', found=[M.fn[b]['dem'] for b in bad] or 'none')
            continue
        R.check(name not in can_reach, 'API ' + name, '%s:%s' % (M.fn[name].get('file'), M.fn[name].get('line')), expected='cannot reach a W+X request', found=path(name) if name in can_reach else 'unreachable')
    for f in M.defined():
        d = f['dem']
        if re.match(r'^randomx::JitCompiler\w+::', d) and not re.match(r'^randomx::JitCompiler\w+::enableAll\(', d):
            R.check(f['name'] not in can_reach, 'compiler member ' + d, '%s:%s' % (f.get('file'), f.get('line')), expected='cannot reach a W+X request', found=path(f['name']) if f['name'] in can_reach else 'unreachable')
        if re.match(r'^randomx::(initCache|initCacheCompile|initDataset|initDatasetItem|deallocCache|deallocDataset)', d):
            R.check(f['name'] not in can_reach, 'cache function ' + d, '%s:%s' % (f.get('file'), f.get('line')), expected='cannot reach a W+X request', found=path(f['name']) if f['name'] in can_reach else 'unreachable')
    # who is allowed: report them
    allowed = sorted(M.fn[n]['dem'] for n in can_reach)
    R.extra['functions_that_can_reach_wx'] = allowed
    bad = [d for d in allowed if not (re.match(r'^randomx::Compiled(Light)?Vm<.*, false>::Compiled(Light)?Vm\(', d) or re.match(r'^randomx::JitCompiler\w+::enableAll\(', d)
                                       or d.startswith('setPagesRWX') or d.startswith('randomx_create_vm') or d.startswith('pageProtect'))]
    R.check(not bad, 'closed set of functions that can reach W+X', 'call graph', expected='setPagesRWX, JitCompiler::enableAll, non-secure CompiledVm constructors, randomx_create_vm', found=bad or 'exactly those')


def rule_class(ctx, R, F):
    """secure flag selects the secure class; nothing else creates compiled VMs."""
    R.rule('WX-CLASS', 'in randomx_create_vm every `new` of a Compiled*Vm class is control-dependent on the SECURE bit of the *unmodified* flags parameter with the matching '
           'secureJit template argument; the function does not re-enter VM creation with other flags; compiled VM constructors are only called from randomx_create_vm', min_instances=16)
    f = F.func('randomx_create_vm', unit='src/randomx.cpp')
    R.saw(fn=f['q'], unit='src/randomx.cpp')
    fid = f['params'][0]['id']
    sec = F.enumerator('RANDOMX_FLAG_SECURE')
    # flags parameter never written
    writes = [x for x in walk(f['body']) if x['k'] in ('Assign', 'CAssign') and strip_all(x['l'])['k'] == 'Ref' and strip_all(x['l']).get('id') == fid]
    writes += [x for x in walk(f['body']) if x['k'] == 'Call' and x.get('opcall') in ('|=', '&=', '=') and x.get('a') and strip_all(x['a'][0])['k'] == 'Ref' and strip_all(x['a'][0]).get('id') == fid]
    R.check(not writes, 'flags parameter is not modified', '%s:%d' % (f['file'], f['line']), expected='no assignment to flags', found=[loc(x, f) for x in writes] or 'none')

    def secure_test(cond):
        c = strip_all(cond)
        while c['k'] == 'Cast':
            c = c['e']
        s = showv(c)
        m = re.match(r'^operator&\((\w+), (\d+)\)$', s) or re.match(r'^\((\w+) & (\d+)\)$', s)
        if not m:
            return None
        refs = [x for x in walk(c) if x['k'] == 'Ref' and x.get('id') == fid]
        if refs and int(m.group(2)) == sec:
            return True
        return None

    n_new = 0

    def rec(s, ctxsec):
        nonlocal n_new
        if not astq.is_node(s):
            return
        if s['k'] == 'If':
            st = secure_test(s['c'])
            if st:
                rec(s['t'], True)
                rec(s.get('e'), False)
                return
        if s['k'] == 'New':
            cls = s.get('atyq') or s.get('aty')
            m = re.match(r'^randomx::(Compiled(?:Light)?Vm)<(.*)>$', cls or '')
            if m:
                n_new += 1
                targs = m.group(2).rsplit(',', 1)
                secure_t = targs[1].strip() == 'true'
                R.check(ctxsec is not None and secure_t == ctxsec, 'new %s' % strip_targs(cls) + '<..%s>' % targs[1].strip(), loc(s, f),
                        expected='secureJit == (flags & RANDOMX_FLAG_SECURE != 0) on this arm', found='under secure arm: %s, class secureJit=%s' % (ctxsec, secure_t))
            return
        for c in astq.children(s):
            rec(c, ctxsec)
    rec(f['body'], None)
    if n_new < 16:
        R.violation('compiled VM allocations in randomx_create_vm', '%s:%d' % (f['file'], f['line']), expected='16 new-expressions of Compiled*Vm classes', found=n_new)
    # no re-entry into VM creation with different flags
    for c in calls(f['body']):
        if c.get('name') == 'randomx_create_vm':
            a0 = strip_all(c['a'][0])
            same = a0['k'] == 'Ref' and a0.get('id') == fid
            R.check(same, 'recursive randomx_create_vm call', loc(c, f), expected='no re-entry with modified flags (a retry must keep RANDOMX_FLAG_SECURE)', found=show(c['a'][0]))
    # constructors of compiled VMs only from randomx_create_vm
    import irq as _irq
    M = _irq.Module(ctx.ir())
    for g in M.defined():
        for i, names, kind in M.callees(g):
            for cn in names:
                d = M.fn[cn]['dem'] if cn in M.fn else cn
                m = re.match(r'^randomx::(Compiled(?:Light)?Vm)<.*>::\1\(', d)
                if m:
                    gd = g['dem']
                    ok = gd.startswith('randomx_create_vm') or re.match(r'^randomx::CompiledLightVm<.*>::CompiledLightVm\(', gd)
                    R.check(bool(ok), 'constructor %s called from %s' % (strip_targs(d.split('(')[0]), strip_targs(gd.split('(')[0])), i.get('loc', '?'), expected='only randomx_create_vm (and derived-class constructors) construct compiled VMs', found=gd)


def rule_bracket(ctx, R, F):
    """RW/RX typestate around code generation."""
    R.rule('WX-BRACKET', 'typestate per secure instantiation (run, setCache) and in initCacheCompile: every code-generating call happens in state RW '
           '(after enableWriting, no enableExecution in between) and every exit / execution happens in state RX (enableExecution post-dominates the generators)', min_instances=12)
    targets = []
    for f in F.funcs(r'^randomx::Compiled(Light)?Vm<.*, true>::(run|setCache)$'):
        targets.append(f)
    targets.append(F.func('randomx::initCacheCompile'))
    n = 0
    for f in targets:
        R.saw(fn=f['q'], unit=f['_unit'])
        g = CFG(f)
        gens = g.find_calls(lambda c: re.match(r'^generate(Program|ProgramLight|SuperscalarHash|DatasetInitCode)$', c.get('name', '')) and 'JitCompiler' in (c.get('cls') or ''))
        ew = g.find_calls(lambda c: c.get('name') == 'enableWriting')
        ee = g.find_calls(lambda c: c.get('name') == 'enableExecution')
        ea = g.find_calls(lambda c: c.get('name') in ('enableAll', 'setPagesRWX'))
        execs = g.find_calls(lambda c: c.get('name') in ('execute', 'getProgramFunc', 'getDatasetInitFunc'))
        inst = f['q']
        where = '%s:%d' % (f['file'], f['line'])
        R.check(not ea, inst + ' no enableAll', where, expected='no RWX request in a secure method / cache code', found=[loc(c, f) for _, c in ea] or 'none')
        if not gens:
            R.violation(inst, where, expected='a code-generating call', found='none')
            continue
        for gn, gc in gens:
            n += 1
            # RW before: an enableWriting dominates the generator and no enableExecution lies on a path between them
            okw = False
            for wn, wc in ew:
                if g.dominates(wn, gn) and wn != gn:
                    blockers = {en for en, _ in ee}
                    # is there a path w -> gen avoiding all enableExecution nodes? need: NO path that passes an enableExecution
                    passes_exec = any(g.dominates(wn, en) and g.paths_between(wn, en, set()) and g.paths_between(en, gn, set()) for en in blockers)
                    if not passes_exec:
                        okw = True
            R.check(okw, '%s: %s in state RW' % (inst, gc['name']), loc(gc, f), expected='dominated by enableWriting() with no enableExecution() in between', found='enableWriting sites %d' % len(ew))
            # RX after: some enableExecution post-dominates the generator
            okx = any(g.postdominates(en, gn) and en != gn and not any(g.paths_between(en, wn2, set()) and wn2 != en for wn2, _ in ew if g.dominates(en, wn2)) for en, _ in ee)
            R.check(okx, '%s: RX restored after %s' % (inst, gc['name']), loc(gc, f), expected='post-dominated by enableExecution() (state RX at exit)', found='enableExecution sites %d' % len(ee))
        for xn, xc in execs:
            okx = any(g.dominates(en, xn) for en, _ in ee) and all(g.dominates(gn, xn) or not g.paths_between(gn, xn, set()) for gn, _ in gens)
            last_gen_before = [gn for gn, _ in gens if g.dominates(gn, xn)]
            okx = okx and all(any(g.dominates(gn, en) and g.dominates(en, xn) for en, _ in ee) for gn in last_gen_before)
            R.check(okx, '%s: %s in state RX' % (inst, xc['name']), loc(xc, f), expected='enableExecution() between the last generator and execution', found='ok' if okx else 'not bracketed')
    if n < 6:
        raise AnalysisBroken('WX-BRACKET: only %d generator calls found in secure instantiations and initCacheCompile' % n)
    # the three switches request exactly RW / RX (constants come from WX-SITES); here: their bodies call the right helper over the whole buffer
    for name, helper in (('enableWriting', 'setPagesRW'), ('enableExecution', 'setPagesRX'), ('enableAll', 'setPagesRWX')):
        for f in F.funcs(r'^randomx::JitCompiler\w+::%s$' % name):
            cs = [c for c in calls(f['body']) if c.get('name', '').startswith('setPages')]
            okh = len(cs) >= 1 and all(c['name'] == helper for c in cs)
            R.check(okh, '%s -> %s' % (f['q'], helper), '%s:%d' % (f['file'], f['line']), expected=helper, found=[show(c) for c in cs])
