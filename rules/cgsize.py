"""CG-SIZE-X86, CG-LAYOUT, FP-ASMCONST: worst-case emitted code size vs buffer regions, constants shared by C++ and the .S file."""
import re

import astq
import codesize
import jitfacts
from astq import calls, loc, show, showv, strip_all, val, walk
from core import AnalysisBroken


def rule_x86(ctx, R, F):
    R.rule('CG-SIZE-X86', 'max-plus abstract interpretation of JitCompilerX86: the end position of the longest possible program (v2, soft AES, light or full, 384 x longest encoding) stays below the '
           'SuperscalarHash routine, the longest possible SuperscalarHash (8 x SuperscalarMaxSize x longest encoding) stays below the epilogue, every memcpy into the code buffer advances the '
           'position by what it copied, fixed fragments fit their regions', min_instances=10)
    o = ctx.obj('x86')
    cls = 'randomx::JitCompilerX86'
    tab, g = jitfacts.engine_table(F, cls + '::engine')
    ssmax = F.const('randomx::SuperscalarMaxSize')
    pmax = int(F.macro('RANDOMX_PROGRAM_MAX_SIZE')['body']) if F.macro('RANDOMX_PROGRAM_MAX_SIZE')['body'].strip().isdigit() else None
    gs = F.func('randomx::Program::getSize')
    rets = [x for x in walk(gs['body']) if x['k'] == 'Return']
    c = strip_all(rets[0]['e'])
    psize = max(val(c['t']), val(c['f'])) if c['k'] == 'Cond' else val(c)
    ev = codesize.SizeEval(F, o, cls, table=tab, loop_bounds={'randomx::Program::getSize': psize, 'randomx::SuperscalarProgram::getSize': ssmax})
    sshoff = ev.glob_value('randomx::superScalarHashOffset')
    codesz = ev.glob_value('randomx::CodeSize')
    epi_off = ev.glob_value('randomx::epilogueOffset')
    epi_sz = ev.glob_value('randomx::epilogueSize')
    pro_sz = ev.glob_value('randomx::prologueSize')
    dsi_sz = ev.glob_value('randomx::datasetInitSize')
    for nm, v in (('superScalarHashOffset', sshoff), ('CodeSize', codesz), ('epilogueOffset', epi_off), ('epilogueSize', epi_sz), ('prologueSize', pro_sz), ('datasetInitSize', dsi_sz)):
        if v is None:
            raise AnalysisBroken('CG-SIZE-X86: cannot evaluate %s from the assembled object' % nm)
    R.extra['x86_layout'] = dict(CodeSize=codesz, superScalarHashOffset=sshoff, epilogueOffset=epi_off, epilogueSize=epi_sz, prologueSize=pro_sz, datasetInitSize=dsi_sz)
    where = 'src/jit_compiler_x86.cpp'
    R.check(psize is not None and pmax is not None and psize <= pmax, 'program length bound', 'src/program.hpp', expected='Program::getSize(flags) <= RANDOMX_PROGRAM_MAX_SIZE = %s' % pmax, found=psize)
    # the two program generators
    for fn in ('generateProgram', 'generateProgramLight'):
        f = F.func('%s::%s' % (cls, fn))
        end = ev.run(f['q'], 0, [None, None, None])
        R.check(end <= sshoff, '%s worst-case end position' % fn, '%s:%d' % (f['file'], f['line']), expected='<= superScalarHashOffset = %d (never reaches the SuperscalarHash routine)' % sshoff, found=end)
        R.extra.setdefault('x86_worst_case', {})[fn] = end
    f = F.func(cls + '::generateSuperscalarHash')
    end = ev.run(f['q'], 0, [None, None])
    R.check(end <= epi_off, 'generateSuperscalarHash worst-case end position', '%s:%d' % (f['file'], f['line']), expected='<= epilogueOffset = %d (never reaches the epilogue copied by the constructor)' % epi_off, found=end)
    R.extra['x86_worst_case']['generateSuperscalarHash'] = end
    R.check(0 <= sshoff <= epi_off and epi_off + epi_sz <= codesz, 'region order', where, expected='0 <= superScalarHashOffset <= epilogueOffset, epilogue inside the buffer', found='ssh %d, epilogue %d..%d, CodeSize %d' % (sshoff, epi_off, epi_off + epi_sz, codesz))
    R.check(dsi_sz <= sshoff and pro_sz <= sshoff, 'fixed fragments fit the program area', where, expected='datasetInitSize, prologueSize <= superScalarHashOffset', found='datasetInit %d, prologue %d' % (dsi_sz, pro_sz))
    # memcpy bookkeeping: every memcpy(code + codePos, src, n) is followed by codePos += n
    checked = 0
    for fq in [cls + '::' + n for n in ('generateProgram', 'generateProgramLight', 'generateProgramPrologue', 'generateProgramEpilogue', 'generateSuperscalarHash', 'generateDatasetInitCode', 'JitCompilerX86')]:
        f = F.func(fq)
        for comp in walk(f['body']):
            if comp['k'] != 'Compound':
                continue
            stmts = comp['s']
            for idx, st in enumerate(stmts):
                top = strip_all(st)
                if top['k'] == 'Call' and top.get('name') == 'memcpy' and show(top['a'][0]) in ('(this->code + this->codePos)',):
                    checked += 1
                    n = ev.ub(top['a'][2], {})
                    # the increment may follow directly or after the enclosing if/else
                    inc = None
                    same_expr = False
                    for nxt in stmts[idx + 1:idx + 2]:
                        t2 = strip_all(nxt)
                        if t2['k'] == 'CAssign' and show(t2['l']) == 'this->codePos' and t2['op'] == '+=':
                            inc = ev.ub(t2['r'], {})
                            same_expr = show(t2['r']) == show(top['a'][2])      # the same size expression on both sides needs no numeric bound
                    if same_expr:
                        R.ok('%s: memcpy of %s' % (f['name'], show(top['a'][2])), loc(top, f), detail='position advanced by the identical expression')
                        continue
                    if inc is None:
                        # search the statement following the enclosing if in the parent compound
                        inc = find_following_increment(f, comp, ev)
                    R.check(n is not None and inc is not None and n == inc, '%s: memcpy of %s' % (f['name'], show(top['a'][2])), loc(top, f), expected='position advanced by the copied size (%s)' % n, found='advanced by %s' % inc)
    if checked < 3:
        raise AnalysisBroken('CG-SIZE-X86: only %d memcpy(code + codePos, ...) sites found' % checked)
    # per-handler maxima (margins; the buffer obligations above are the hard ones)
    mx = F.const('randomx::MaxRandomXInstrCodeSize') if F.has_glob('randomx::MaxRandomXInstrCodeSize') else None
    sizes = {h.split('::')[-1]: ev.handler_size(h) for h in sorted(set(tab))}
    R.extra['x86_handler_max_bytes'] = sizes
    worst = max(sizes.values())
    R.check(mx is None or worst <= mx, 'longest instruction encoding', where, expected='<= MaxRandomXInstrCodeSize = %s' % mx, found='%d (%s)' % (worst, [k for k, v in sizes.items() if v == worst]))
    # superscalar per-instruction maximum
    f = F.func(cls + '::generateSuperscalarCode')
    d = ev.run(f['q'], 0, [None, None])
    mss = F.const('randomx::MaxSuperscalarInstrSize') if F.has_glob('randomx::MaxSuperscalarInstrSize') else None
    R.check(mss is None or d <= mss, 'longest SuperscalarHash instruction encoding', '%s:%d' % (f['file'], f['line']), expected='<= MaxSuperscalarInstrSize = %s' % mss, found=d)
    R.saw(fn=cls, unit='src/jit_compiler_x86.cpp', config='K0')
    return ev


def find_following_increment(f, inner, ev):
    """`if (..) { memcpy(code+codePos, a, n1) } else { memcpy(.., n2) } codePos += m;` -> m"""
    for comp in walk(f['body']):
        if comp['k'] != 'Compound':
            continue
        for idx, st in enumerate(comp['s']):
            if st['k'] == 'If' and any(x is inner for x in walk(st)):
                for nxt in comp['s'][idx + 1:idx + 2]:
                    t2 = strip_all(nxt)
                    if t2['k'] == 'CAssign' and show(t2['l']) == 'this->codePos' and t2['op'] == '+=':
                        return ev.ub(t2['r'], {})
    return None


def rule_layout(ctx, R, F):
    R.rule('CG-LAYOUT', 'constants duplicated between C++ and the hand-written x86 runtime agree: the call displacement of randomx_dataset_init targets superScalarHashOffset; '
           'the eMask patch offset (codePos - 48 at the end of the prologue) lands on label exp240; mask immediates of the runtime equal the C++ masks', min_instances=5)
    o = ctx.obj('x86')
    ev = codesize.SizeEval(F, o, 'randomx::JitCompilerX86')
    ssh = ev.glob_value('randomx::superScalarHashOffset')
    ins = o.between('randomx_dataset_init', 'randomx_program_epilogue')
    callsx = [i for i in ins if i[1] == 'call']
    ok = False
    tgt = None
    if len(callsx) == 1:
        m = re.match(r'^([0-9a-f]+)', callsx[0][2])
        if m:
            tgt = int(m.group(1), 16) - o.sym('randomx_dataset_init')
            ok = tgt == ssh
    R.check(ok, 'dataset_init call target', 'src/jit_compiler_x86_static.S', expected='randomx_dataset_init + superScalarHashOffset (%s)' % ssh, found=tgt)
    # eMask patch: prologueSize - 48 == exp240 - prologue
    pro = F.func('randomx::JitCompilerX86::generateProgramPrologue')
    patch = [c for c in calls(pro['body']) if c.get('name') == 'memcpy' and 'eMask' in show(c['a'][1])]
    okp = False
    found = None
    if len(patch) == 1:
        d = strip_all(patch[0]['a'][0])
        if d['k'] == 'Bin' and d['op'] == '-' and val(d['r']) is not None:
            back = val(d['r'])
            want = o.sym('randomx_program_loop_begin') - o.sym('exp240')
            found = 'codePos - %d, label exp240 is %d bytes before loop_begin, %d bytes copied' % (back, want, val(patch[0]['a'][2]) or -1)
            # position at that point is prologueSize
            asg = [x for x in walk(pro['body']) if x['k'] == 'Assign' and show(x['l']) == 'this->codePos']
            okp = back == want and val(patch[0]['a'][2]) == 16 and bool(asg) and show(asg[0]['r']) == 'randomx::prologueSize' and asg[0].get('ln', 0) < patch[0].get('ln', 0)
    R.check(okp, 'eMask patch lands on exp240', '%s:%d' % (pro['file'], pro['line']), expected='memcpy(code + prologueSize - (loop_begin - exp240), eMask, 16)', found=found)
    # mantissa / scale masks in the object equal the C++ constants
    dm = F.const('randomx::dynamicMantissaMask')
    R.eq('asm mantissaMask', 'src/asm/program_xmm_constants.inc', [dm, dm], [o.u64(o.sym('mantissaMask')), o.u64(o.sym('mantissaMask') + 8)])
    fs = F.func('randomx::BytecodeMachine::exe_FSCAL_R')
    c1 = [c for c in calls(fs['body']) if c.get('name') == 'rx_set1_vec_f128']
    sm = val(c1[0]['a'][0]) if c1 else None
    R.eq('asm scaleMask', 'src/asm/program_xmm_constants.inc', [sm, sm], [o.u64(o.sym('scaleMask')), o.u64(o.sym('scaleMask') + 8)])
    # scratchpad / dataset masks as immediates of `and` instructions in the runtime
    l3_64 = F.const('randomx::ScratchpadL3Mask64')
    cla = F.const('randomx::CacheLineAlignMask')
    cmask = F.const('randomx::CacheSize') // 64 - 1
    frags = [('randomx_prefetch_scratchpad', 'randomx_prefetch_scratchpad_end', {l3_64}, 'scratchpad L3 64-byte mask'),
             ('randomx_program_prologue', 'mantissaMask', {l3_64, cla}, 'initial ma/mx (dataset base mask) and first scratchpad addresses (L3 64-byte mask)'),
             ('randomx_sshash_init', 'r0_mul', {cmask}, 'cache line mask'),
             ('randomx_program_read_dataset', 'randomx_program_read_dataset_v2', {cla}, 'dataset base mask'),
             ('randomx_program_read_dataset_v2', 'randomx_program_read_dataset_sshash_init', {cla}, 'dataset base mask'),
             ('randomx_program_read_dataset_sshash_init', 'randomx_program_read_dataset_sshash_init_v2', {cla // 64}, 'dataset item-number mask (light mode)'),
             ('randomx_program_read_dataset_sshash_init_v2', 'randomx_program_read_dataset_sshash_fin', {cla // 64}, 'dataset item-number mask (light mode)'),
             ('randomx_sshash_prefetch', 'randomx_sshash_end', {cmask}, 'cache line mask')]
    covered = set()
    for a_, b_, want, desc in frags:
        got = set()
        for off, mn, ops, raw in o.between(a_, b_):
            covered.add(off)
            if mn == 'and':
                m = re.search(r',\s*(0x[0-9a-f]+|\d+)$', ops)
                if m and int(m.group(1), 0) > 0xffff:
                    got.add(int(m.group(1), 0))
        R.check(got == want, 'asm masks in %s' % a_, 'src/jit_compiler_x86_static.S', expected='%s: %s' % (desc, sorted(hex(x) for x in want)), found=sorted(hex(x) for x in got))
    stray = []
    for off, mn, ops, raw in o.insns:
        if mn == 'and' and off not in covered:
            m = re.search(r',\s*(0x[0-9a-f]+|\d+)$', ops)
            if m and 0xffff < int(m.group(1), 0) < 0xffffffff:
                stray.append(raw.strip())
    R.check(not stray, 'no large and-mask outside the known fragments', 'src/jit_compiler_x86_static.S', expected='none', found=stray or 'none')
