"""Rules specific to the RV64 (K3) JIT back-end: CBRANCH constants / target / branch-form ranges and offset scatter,
emitImm32 (addiw requirement, c.lui range), IMUL_RCP literal pool (store address == load address, bounds, no overlap
with the fixed literals), scratchpad mask selection, E-mask literals, code-size bound."""
import os
import re

import astq
import decoder
import domains
from astq import CFG, calls, loc, show, showv, strip_all, val, walk
from core import AnalysisBroken
from domains import KB, KBEval
from rules import decode, jit
from rules.driver import loop_trip

UNIT = 'jit_compiler_rv64.cpp'


def jitfacts_instr_param(f):
    import jitfacts
    return jitfacts.instr_param(f)

ABI = dict(zero=0, ra=1, sp=2, gp=3, tp=4, t0=5, t1=6, t2=7, s0=8, fp=8, s1=9)
ABI.update({'a%d' % i: 10 + i for i in range(8)})
ABI.update({'s%d' % i: 16 + i for i in range(2, 12)})
ABI.update({'t%d' % i: 25 + i for i in range(3, 7)})
FABI = {'ft%d' % i: i for i in range(8)}
FABI.update({'fs0': 8, 'fs1': 9})
FABI.update({'fa%d' % i: 10 + i for i in range(8)})
FABI.update({'fs%d' % i: 16 + i for i in range(2, 12)})
FABI.update({'ft%d' % i: 20 + i for i in range(8, 12)})


def regnum(r):
    if re.match(r'^x\d+$', r):
        return ('x', int(r[1:]))
    if re.match(r'^f\d+$', r):
        return ('f', int(r[1:]))
    if r in ABI:
        return ('x', ABI[r])
    if r in FABI:
        return ('f', FABI[r])
    return None


def program_insns(o):
    """instructions of the template between the dataset-init entry and the end of the program area (the SuperscalarHash routine re-uses registers)"""
    return o.between('randomx_riscv64_data_init', 'randomx_riscv64_program_end')

# RISC-V ISA (trusted base): branch/jump forms: offset bit k -> instruction bit, and the signed width of the offset
ISA_BRANCH = {
    'C_BEQZ': dict(bits=9, pos={8: 12, 4: 11, 3: 10, 7: 6, 6: 5, 2: 4, 1: 3, 5: 2}, opmask=0xe003, op=0xc001),
    'C_BNEZ': dict(bits=9, pos={8: 12, 4: 11, 3: 10, 7: 6, 6: 5, 2: 4, 1: 3, 5: 2}, opmask=0xe003, op=0xe001),
    'BEQ': dict(bits=13, pos=dict([(12, 31), (11, 7)] + [(k, 25 + k - 5) for k in range(5, 11)] + [(k, 8 + k - 1) for k in range(1, 5)]), opmask=0x707f, op=0x0063),
    'JAL': dict(bits=21, pos=dict([(20, 31), (11, 20)] + [(k, 21 + k - 1) for k in range(1, 11)] + [(k, k) for k in range(12, 20)]), opmask=0x7f, op=0x6f),
}


def fn(F, name):
    c = [f for f in F.in_file(UNIT) if f['q'].split('::')[-1] == name]
    if len(c) != 1:
        raise AnalysisBroken('rv64: expected one definition of %s in %s, found %d' % (name, UNIT, len(c)))
    return c[0]


def opc_of(call):
    """rv64::X enumerator/constant named by the first argument of rvi()/rvc(), or of an `rv64::X | ...` expression"""
    for x in walk(call):
        if x['k'] == 'Ref' and (x.get('q') or '').startswith('rv64::'):
            return x['q'].split('::')[-1]
    return None


def emitted_ops(node):
    """[(opcode name, emit call)] for emit()/emitAt() calls inside node, in source order"""
    out = []
    for c in calls(node):
        if c.get('name') in ('emit', 'emitAt') and c.get('a'):
            a = c['a'][-1]
            o = opc_of(a)
            if o:
                out.append((o, c))
    return out


def local_decls(f):
    return {d['name']: d for x in walk(f['body']) if x['k'] == 'Decl' for d in x['d']}


def sx(v, bits):
    v &= (1 << bits) - 1
    return v - (1 << bits) if v >> (bits - 1) else v


def cbranch_roles(h):
    """locals of h_CBRANCH by what they hold, not by what they are called"""
    f = h.f
    out = {}
    for x in walk(f['body']):
        if x['k'] != 'Decl':
            continue
        for d in x['d']:
            if 'init' not in d:
                continue
            i = strip_all(d['init'])
            while i['k'] == 'Cast':
                i = strip_all(i['e'])
            mems = [y for y in walk(d['init']) if y['k'] == 'Mem']
            names = [show(y).split('.')[-1].split('>')[-1] for y in mems]
            if 'registerUsage' in names:
                out['target'] = d
            elif 'instructionOffsets' in names:
                out['targetPos'] = d
            elif i['k'] == 'Bin' and i['op'] == '-' and 'codePos' in names:
                out['offset'] = d
            elif h.desc(d['init']) == 'dst' and i['k'] == 'Mem':
                out['reg'] = d
    for k in ('target', 'targetPos', 'offset'):
        if k not in out:
            raise AnalysisBroken('rv64 h_CBRANCH: local holding the %s not found' % k)
    return out


# ---------------------------------------------------------------------------------------------
def rule_cbr(ctx, R, FI):
    F, hs = jit.handlers(ctx, 'rv64')
    h = hs['CBRANCH']
    f = h.f
    where = '%s:%d' % (f['file'], f['line'])
    cm = FI.const('randomx::ConditionMask')
    co = FI.const('randomx::ConditionOffset')
    R.rule('CBR-BITS', 'RV64 h_CBRANCH: for each of the 16 shifts the 32-bit addend passed to emitImm32 has bit b set / bit b-1 clear and the materialised test mask is ConditionMask << b (non-negative as int32, so lui/addiw add no mask bits)', min_instances=32)
    e = [c for c in calls(f['body']) if c.get('name') == 'emitImm32']
    if len(e) != 2:
        raise AnalysisBroken('rv64 h_CBRANCH: expected two emitImm32 calls (mask, addend), found %d' % len(e))
    # which call is the mask: the one whose destination is a fixed temporary
    mask_call = [c for c in e if val(c['a'][2]) is not None]
    add_call = [c for c in e if val(c['a'][2]) is None]
    if len(mask_call) != 1 or len(add_call) != 1:
        raise AnalysisBroken('rv64 h_CBRANCH: cannot tell mask from addend emitImm32')
    mask_call, add_call = mask_call[0], add_call[0]
    for mc in range(16):
        ev = KBEval(F, {}, overrides={'randomx::Instruction::getModCond': KB.const(32, mc)})
        try:
            ev._exec(f['body'], [])
        except AnalysisBroken:
            pass
        b = mc + co
        imm = ev.ev(add_call['a'][1])
        R.check(imm.w == 32 and imm.bit(b) == 1 and imm.bit(b - 1) == 0, 'rv64 addend bits, shift %d' % b, loc(add_call, f), expected='bit %d = 1, bit %d = 0' % (b, b - 1), found=repr(imm)[-(b + 4):])
        mask = ev.ev(mask_call['a'][1])
        R.check(mask.value() == cm << b and (cm << b) < (1 << 31), 'rv64 mask, shift %d' % b, loc(mask_call, f), expected=hex(cm << b), found=mask.hexpat())
    R.rule('CBR-TARGET', 'RV64 h_CBRANCH: the register added to and tested is instr.dst, the jump goes to instructionOffsets[registerUsage[instr.dst] + 1]; all 8 entries are marked afterwards; '
           'the tables are reset before every compilation and the offset of every instruction is recorded before its handler runs', min_instances=6)
    ro = cbranch_roles(h)
    st_id = f['params'][0]['id'] if f['params'] else None
    with astq.renaming({h.ip: 'IN', st_id: 'ST', ro['target']['id']: 'TARGET', ro['targetPos']['id']: 'TPOS'} | ({ro['reg']['id']: 'REG'} if ro.get('reg') else {})), astq.nocasts():
        tgt_s = showv(ro['target']['init'])
        tpos_s = showv(ro['targetPos']['init'])
        off_s = showv(ro['offset']['init'])
        addargs = [showv(a) for a in add_call['a'][2:4]]
        andc = [c for c in calls(f['body']) if c.get('name') == 'rvi' and opc_of(c) == 'AND']
        and_s = [showv(a) for a in andc[0]['a'][1:]] if andc else None
    ok_t = tgt_s in ('(ST.registerUsage[REG] + 1)', '(ST.registerUsage[IN.dst] + 1)') and (not ro.get('reg') or h.desc(ro['reg']['init']) == 'dst')
    R.check(ok_t, 'rv64 target lookup', where, expected='target = registerUsage[instr.dst] + 1', found=tgt_s)
    R.check(tpos_s == 'ST.instructionOffsets[TARGET]', 'rv64 target position', where, expected='instructionOffsets[target]', found=tpos_s)
    R.check(off_s == '(TPOS - ST.codePos)', 'rv64 branch displacement', where, expected='targetPos - codePos (relative to the branch instruction itself)', found=off_s)
    R.check(addargs == ['randomx::regR(IN.dst)', 'randomx::regR(IN.dst)'], 'rv64 addend register', loc(add_call, f), expected='x{dst} += imm', found=addargs)
    tmp = val(mask_call['a'][2])
    R.check(and_s is not None and val(andc[0]['a'][1]) == tmp and {val(andc[0]['a'][2]), and_s[2]} >= {tmp, 'randomx::regR(IN.dst)'} or (and_s is not None and set(and_s[1:]) == {showv(mask_call['a'][2]), 'randomx::regR(IN.dst)'}),
            'rv64 test = mask & x{dst}', where, expected='and tmp, tmp, x{dst}', found=and_s)
    R.check(h.paths and all(p['mark_all'] == FI.const('randomx::RegistersCount') for p in h.paths), 'rv64 marks all after branch', where, expected=8, found=[p['mark_all'] for p in h.paths])
    pre = fn(F, 'emitProgramPrefix')
    loops = [x for x in walk(pre['body']) if x['k'] == 'For']
    reset = [l for l in loops if any(x['k'] == 'Assign' and 'registerUsage' in show(x['l']) and val(x['r']) == -1 for x in walk(l['b']))]
    main = [l for l in loops if any(c.get('name') == 'emitInstruction' for c in calls(l['b']))]
    okr = len(reset) == 1 and len(main) == 1 and reset[0].get('ln', 0) < main[0].get('ln', 0) and loop_trip(reset[0]) == 8
    R.check(okr, 'rv64 emitProgramPrefix resets registerUsage before emitting', '%s:%d' % (pre['file'], pre['line']), expected='registerUsage[0..7] = -1 before the instruction loop', found='%d reset loops' % len(reset))
    norm = [x for x in walk(main[0]['b']) if x['k'] == 'CAssign' and x['op'] == '%=' and val(x['r']) == 8] if main else []
    R.check(len(norm) == 2, 'rv64 src/dst reduced mod 8 before handlers', '%s:%d' % (pre['file'], pre['line']), expected='instr.src %= 8; instr.dst %= 8', found=len(norm))
    ei = fn(F, 'emitInstruction')
    body = ei['body']['s'] if ei['body']['k'] == 'Compound' else [ei['body']]
    first = strip_all(body[0]) if body else None
    with astq.nocasts():
        okf = first is not None and first['k'] == 'Assign' and showv(first) == '(state.instructionOffsets[i] = state.codePos)'
    R.check(okf, 'rv64 instruction offset recorded before the handler', '%s:%d' % (ei['file'], ei['line']), expected='instructionOffsets[i] = codePos first', found=show(first)[:80] if first else None)


def rule_branch_forms(ctx, R):
    F, hs = jit.handlers(ctx, 'rv64')
    h = hs['CBRANCH']
    f = h.f
    R.rule('RV-BRANCH-RANGE', 'RV64 h_CBRANCH chooses among c.beqz / beq / c.bnez+jal by the (negative) distance: each form is selected only for distances its signed offset field can represent (c.beqz 9 bit, beq 13 bit, jal 21 bit '
           'and the whole program area is smaller than the jal range)', min_instances=3)
    d = local_decls(f)
    off = cbranch_roles(h)['offset']
    forms = 0
    for p in decoder.paths(f['body']):
        ops = []
        for e in p.events:
            node = e[1] if isinstance(e, tuple) else e
            if isinstance(e, tuple):
                continue
            ops += [o for o, _ in emitted_ops(node)]
            if any(c.get('name') == 'emitJump' for c in calls(node)):
                ops.append('JAL')
        br = [o for o in ops if o in ISA_BRANCH or o in ('BNE', 'C_J')]
        # lower bounds on offset known on this path
        lo = None
        for c, taken in p.conds:
            c = strip_all(c)
            if c['k'] == 'Bin' and c['op'] in ('>=', '>') and strip_all(c['l'])['k'] == 'Ref' and strip_all(c['l']).get('id') == off['id'] and val(c['r']) is not None and taken:
                b = val(c['r']) + (1 if c['op'] == '>' else 0)
                lo = b if lo is None else max(lo, b)
        if not br:
            continue
        forms += 1
        form = 'JAL' if 'JAL' in ops else br[0]
        bits = ISA_BRANCH[form]['bits']
        if form == 'JAL':
            size = F.const('randomx::RandomXCodeSize')
            R.check(size is not None and size <= (1 << (bits - 1)), 'rv64 far branch: c.bnez +6 ; jal', loc(off, f), expected='program area %s <= %d (jal range)' % (size, 1 << (bits - 1)), found=size)
        else:
            R.check(lo is not None and lo >= -(1 << (bits - 1)), 'rv64 %s range guard' % form, loc(off, f), expected='offset >= %d on the path that emits %s' % (-(1 << (bits - 1)), form), found='offset >= %s' % lo)
    if forms < 3:
        raise AnalysisBroken('rv64 h_CBRANCH: expected three branch forms, found %d' % forms)

    R.rule('RV-BRANCH-ENC', 'RV64 branch/jump offset scatter: bit k of the byte distance reaches exactly the instruction bit the ISA assigns to it (known-bits evaluation with one unknown distance bit at a time, for an all-zeros and an all-ones '
           'background), the sign bit is set, the opcode/funct bits are those of the intended instruction, and c.bnez skips exactly itself plus the 4-byte jal', min_instances=40)
    offid = off['id']

    def word_for(form, emit_arg, env_extra, offval):
        ev = KBEval(F, {}, overrides={})
        ev.env.update(env_extra)
        ev.env[offid] = offval
        # re-run the declarations that depend on offset (imm21, imm5, ...)
        for x in walk(f['body']):
            if x['k'] == 'Decl':
                for dd in x['d']:
                    if dd['id'] != offid and 'init' in dd and domains.type_info(dd.get('ty')) is not None and not any(c.get('name') in ('getImm32', 'getModCond') for c in calls(dd['init'])) and \
                            'registerUsage' not in show(dd['init']) and 'instructionOffsets' not in show(dd['init']):
                        w, sg = domains.type_info(dd['ty'])
                        ev.env[dd['id']] = ev.ev(dd['init']).resize(w, (domains.type_info(dd['init'].get('ty')) or (0, False))[1])
        return ev.ev(emit_arg)

    # emits that belong to the far arm (the path that calls emitJump) are checked separately below
    far_ids = set()
    for p in decoder.paths(f['body']):
        evs_ = [e for e in p.events if not isinstance(e, tuple)]
        if any(c.get('name') == 'emitJump' for e in evs_ for c in calls(e)):
            others = [q_ for q_ in decoder.paths(f['body']) if q_ is not p]
            other_nodes = set(id(e) for q_ in decoder.paths(f['body']) if not any(c.get('name') == 'emitJump' for e in q_.events if not isinstance(e, tuple) for c in calls(e)) for e in q_.events if not isinstance(e, tuple))
            for e in evs_:
                if id(e) not in other_nodes:
                    for c in calls(e):
                        far_ids.add(id(c))
    for form in ('C_BEQZ', 'BEQ'):
        isa = ISA_BRANCH[form]
        em = [c for o, c in emitted_ops(f['body']) if o == form and id(c) not in far_ids]
        if len(em) != 1:
            raise AnalysisBroken('rv64 h_CBRANCH: expected one %s emit, found %d' % (form, len(em)))
        arg = em[0]['a'][-1]
        bits = isa['bits']
        for k in range(1, bits - 1):
            for bg in (0, 1):
                base = (0xffffffff << (bits - 1)) & 0xffffffff
                if bg:
                    base |= ((1 << (bits - 1)) - 2) & ~(1 << k)
                zeros = ~base & 0xffffffff & ~(1 << k)
                ones = base & ~(1 << k)
                kb = KB(32, zeros, ones)
                w = word_for(form, arg, {}, kb)
                unk = [i for i in range(w.w) if w.bit(i) is None]
                R.check(unk == [isa['pos'][k]], 'rv64 %s offset bit %d (background %d)' % (form, k, bg), loc(em[0], f), expected='instruction bit %d' % isa['pos'][k], found='unknown bits %s in %s' % (unk, w.hexpat()))
        # sign bit and opcode with a fully known distance
        w = word_for(form, arg, {}, KB.const(32, (-(1 << (bits - 1)) + 2) & 0xffffffff))
        v = w.value()
        R.check(v is not None and (v >> isa['pos'][bits - 1]) & 1 == 1 and (v & isa['opmask']) == isa['op'], 'rv64 %s sign bit and opcode' % form, loc(em[0], f), expected='sign bit set, opcode %#x' % isa['op'], found=w.hexpat())
        if v is not None:
            rs1 = ((v >> 7) & 7) + 8 if form == 'C_BEQZ' else (v >> 15) & 31
            rs2 = 0 if form == 'C_BEQZ' else (v >> 20) & 31
            R.check(rs1 == F.const('randomx::Tmp1Reg') and rs2 == 0, 'rv64 %s tests the masked value against zero' % form, loc(em[0], f), expected='rs1 = x%d, rs2 = x0' % F.const('randomx::Tmp1Reg'), found='rs1 = x%d rs2 = x%d' % (rs1, rs2))
    # far form: the instruction emitted right before emitJump must skip the jal exactly when the masked value is NOT zero
    far = None
    for p in decoder.paths(f['body']):
        evs = [e for e in p.events if not isinstance(e, tuple)]
        idx = [i for i, e in enumerate(evs) if any(c.get('name') == 'emitJump' for c in calls(e))]
        if idx:
            far = (evs, idx[0])
    if far is None:
        raise AnalysisBroken('rv64 h_CBRANCH: no path calls emitJump')
    evs, ji = far
    skips = []
    for e in evs[:ji]:
        for c in calls(e):
            if c.get('name') == 'emit' and c.get('a'):
                w = KBEval(F, {}).ev(c['a'][-1])
                v = w.value()
                if v is None:
                    continue
                if w.w == 16 and (v & 0xc003) == 0xc001:       # c.beqz / c.bnez
                    isa = ISA_BRANCH['C_BNEZ']
                    o = 0
                    for k_, p_ in isa['pos'].items():
                        o |= ((v >> p_) & 1) << k_
                    skips.append(dict(kind='nez' if (v >> 13) & 1 else 'eqz', rs1=((v >> 7) & 7) + 8, rs2=0, off=sx(o, 9), size=2, call=c))
                elif w.w == 32 and (v & 0x7f) == 0x63:
                    isa = ISA_BRANCH['BEQ']
                    o = 0
                    for k_, p_ in isa['pos'].items():
                        o |= ((v >> p_) & 1) << k_
                    f3 = (v >> 12) & 7
                    skips.append(dict(kind={0: 'eqz', 1: 'nez'}.get(f3, 'funct3=%d' % f3), rs1=(v >> 15) & 31, rs2=(v >> 20) & 31, off=sx(o, 13), size=4, call=c))
    adv = [val(x['r']) for x in walk(f['body']) if x['k'] == 'CAssign' and x['op'] == '+=' and 'codePos' in show(x['l'])]
    tmp1 = F.const('randomx::Tmp1Reg')
    ok = len(skips) == 1 and skips[0]['kind'] == 'nez' and skips[0]['rs1'] == tmp1 and skips[0]['rs2'] == 0 and skips[0]['off'] == skips[0]['size'] + 4 and adv == [4]
    R.check(ok, 'rv64 far form: branch-if-not-zero over the jal', loc(skips[0]['call'], f) if skips else '%s:%d' % (f['file'], f['line']),
            expected='one branch taken when x%d != 0 that skips itself + the 4-byte jal; codePos += 4 for the jal' % tmp1,
            found=[dict(kind=s_['kind'], rs1=s_['rs1'], rs2=s_['rs2'], offset=s_['off'], size=s_['size']) for s_ in skips] + ['codePos += %s' % adv])
    # jal scatter in emitJump
    ej = fn(F, 'emitJump')
    if len(ej['params']) != 4:
        raise AnalysisBroken('rv64 emitJump: expected (buf, dst, codePos, targetPos)')
    pid = {'dst': ej['params'][1]['id'], 'codePos': ej['params'][2]['id'], 'targetPos': ej['params'][3]['id']}
    em = [c for c in calls(ej['body']) if c.get('name') == 'emitAt']
    if len(em) != 1:
        raise AnalysisBroken('rv64 emitJump: expected one emitAt')
    isa = ISA_BRANCH['JAL']
    for k in range(1, 20):
        for bg in (0, 1):
            base = 0xfff00000
            if bg:
                base |= ((1 << 20) - 2) & ~(1 << k)
            kb = KB(32, ~base & 0xffffffff & ~(1 << k), base & ~(1 << k))
            ev = KBEval(F, {pid['codePos']: KB.const(32, 0), pid['targetPos']: kb, pid['dst']: KB.const(32, 0)})
            try:
                ev._exec(ej['body'], [])
            except AnalysisBroken:
                pass
            w = ev.ev(em[0]['a'][-1])
            unk = [i for i in range(w.w) if w.bit(i) is None]
            R.check(unk == [isa['pos'][k]], 'rv64 jal offset bit %d (background %d)' % (k, bg), loc(em[0], ej), expected='instruction bit %d' % isa['pos'][k], found='unknown bits %s in %s' % (unk, w.hexpat()))
    for dist, what in ((-(1 << 20) + 2, 'negative'), (2, 'positive')):
        ev = KBEval(F, {pid['codePos']: KB.const(32, 0), pid['targetPos']: KB.const(32, dist & 0xffffffff), pid['dst']: KB.const(32, 0)})
        try:
            ev._exec(ej['body'], [])
        except AnalysisBroken:
            pass
        v = ev.ev(em[0]['a'][-1]).value()
        R.check(v is not None and (v >> 31) == (1 if dist < 0 else 0) and (v & 0x7f) == 0x6f, 'rv64 jal sign bit, %s distance' % what, loc(em[0], ej), expected='bit 31 = %d' % (1 if dist < 0 else 0), found=hex(v) if v is not None else None)


# ---------------------------------------------------------------------------------------------
def rule_imm32(ctx, R):
    F, hs = jit.handlers(ctx, 'rv64')
    f = fn(F, 'emitImm32')
    R.rule('RV-IMM32', 'RV64 emitImm32 materialises a sign-extended 32-bit constant: whenever the upper part was loaded with lui / c.lui the low 12 bits are added with addiw (addi would not wrap at 32 bits: lui 0x80000 ; addi -1 gives '
           '0xffffffff7fffffff), c.lui is used only for a non-zero 6-bit signed upper part, and the single-instruction form is used only when the upper part is zero', min_instances=4)
    d = local_decls(f)
    # roles, not names: `limm` is the local that supplies the 12-bit immediate of addi / addiw, `uimm` the one shifted into the lui word
    role = {}
    for o_, c_ in emitted_ops(f['body']):
        inner = [cc for cc in calls(c_) if cc.get('name') == 'rvi']
        if o_ in ('ADDIW', 'ADDI') and inner:
            for y in walk(inner[0]['a'][-1]):
                if y['k'] == 'Ref' and y.get('id') in [dd['id'] for dd in d.values()]:
                    role[y['id']] = 'limm'
        if o_ == 'LUI':
            for y in walk(c_['a'][-1]):
                if y['k'] == 'Bin' and y['op'] == '<<' and val(y['r']) == 12:
                    for z in walk(y['l']):
                        if z['k'] == 'Ref' and z.get('id') in [dd['id'] for dd in d.values()]:
                            role[z['id']] = 'uimm'
    if sorted(role.values()) != ['limm', 'uimm']:
        raise AnalysisBroken('rv64 emitImm32: cannot identify the low / high part locals (%s)' % sorted(role.values()))
    by_role = {v_: k_ for k_, v_ in role.items()}
    n = 0
    for p in decoder.paths(f['body']):
        ops = []
        for e in p.events:
            if isinstance(e, tuple):
                continue
            ops += [(o, c) for o, c in emitted_ops(e)]
        names = [o for o, _ in ops]
        conds = []
        with astq.renaming(role), astq.nocasts():
            for c, t in p.conds:
                conds.append((showv(c), t))
        n += 1
        label = ' && '.join(('' if t else '!') + c for c, t in conds) or 'always'
        if 'LUI' in names or 'C_LUI' in names:
            i = names.index('LUI') if 'LUI' in names else names.index('C_LUI')
            after = names[i + 1:]
            low = [o for o in after if o not in ('C_ADD', 'ADD')]
            R.check(all(o == 'ADDIW' for o in low), 'rv64 emitImm32 [%s]' % label[:80], loc(ops[i][1], f), expected='low bits added with addiw after lui', found=names)
            # a path that skips the low-bits add must know limm == 0
            if not low:
                R.check(any(re.search(r'\blimm\b', c) and re.search(r'[!=]= 0\)?$', c) for c, t in conds), 'rv64 emitImm32 no low part [%s]' % label[:60], loc(ops[i][1], f), expected='guarded by limm == 0', found=label)
            if 'C_LUI' in names:
                rng = [c for c, t in conds if t and 'uimm' in c and '>= -32' in c and '<= 31' in c]
                R.check(bool(rng), 'rv64 emitImm32 c.lui range [%s]' % label[:60], loc(ops[i][1], f), expected='-32 <= uimm <= 31', found=label)
            R.check(any('uimm == 0' in c and not t or 'uimm != 0' in c and t for c, t in conds), 'rv64 emitImm32 lui path excludes uimm == 0 [%s]' % label[:50], loc(ops[i][1], f), expected='uimm != 0 (c.lui 0 is reserved)', found=label)
        else:
            R.check(names in (['ADDI'],) and any('uimm == 0' in c and t for c, t in conds), 'rv64 emitImm32 short form [%s]' % label[:60], '%s:%d' % (f['file'], f['line']), expected='addi only when uimm == 0', found='%s under %s' % (names, label))
    if n < 4:
        raise AnalysisBroken('rv64 emitImm32: only %d paths' % n)
    # the split itself: limm is the sign-extended low 12 bits, uimm compensates for a negative limm
    pid = {'imm': f['params'][1]['id']}
    byid = {dd['id']: dd for dd in d.values()}
    lim, uim = byid.get(by_role['limm']), byid.get(by_role['uimm'])
    R.rule('RV-IMM32-SPLIT', 'emitImm32 split: limm = sign-extended low 12 bits of imm, uimm = (imm - limm) >> 12; decided by known-bits evaluation for every value of the low 12 bits x an all-zeros / all-ones / alternating upper part', min_instances=4096)
    for low in range(4096):
        for up in (0, 0xfffff, 0x55555, 0x80000, 0x7ffff):
            immv = (up << 12) | low
            ev = KBEval(F, {pid['imm']: KB.const(32, immv)})
            l = ev.ev(lim['init']).resize(32, True)
            ev.env[lim['id']] = l
            u = ev.ev(uim['init'])
            lv, uv = l.value(), u.value()
            ok = lv is not None and uv is not None and sx(lv, 32) == sx(low, 12) and ((uv << 12) + lv) & 0xffffffff == immv
            if not ok or up == 0:
                R.check(ok, 'rv64 emitImm32 split imm = %#x' % immv, loc(lim, f), expected='(uimm << 12) + limm == imm, limm in [-2048, 2047]', found='limm %s uimm %s' % (lv, uv))


# ---------------------------------------------------------------------------------------------
def rule_rcppool(ctx, R, FI):
    F, hs = jit.handlers(ctx, 'rv64')
    R.rule('RV-RCPPOOL', 'RV64 IMUL_RCP literals: for every literal index n the address emitRcpLiteral1 stores to equals the address the emitted `ld x8, off(x3)` (12-bit signed displacement from the middle of the pool) or the prologue register load reads, '
           'lies inside the 4 KiB literal pool and does not overlap the fixed and per-program literals; indices beyond the pool are refused; the pool covers RANDOMX_PROGRAM_MAX_SIZE literals', min_instances=400)
    f = fn(F, 'emitRcpLiteral1')
    h = hs['IMUL_RCP'].f
    o = ctx.obj('rv64')
    _OBJ['obj'] = o
    size_lit = o.sym('randomx_riscv64_literals_end') - o.sym('randomx_riscv64_literals')
    pool = F.const('randomx::LiteralPoolSize')
    mid = F.const('randomx::LiteralPoolOffset')
    rlo = F.const('randomx::RcpLiteralsOffset')
    pmax = int(FI.macro('RANDOMX_PROGRAM_MAX_SIZE')['body'])
    if None in (pool, mid, rlo):
        raise AnalysisBroken('rv64: pool constants not found')
    R.extra['rv64_pool'] = dict(size=pool, middle=mid, rcp_offset=rlo, fixed_literals=size_lit)
    where = '%s:%d' % (f['file'], f['line'])
    # per-program literals written by emitProgramPrefix (E masks, AES table pointers)
    pre = fn(F, 'emitProgramPrefix')
    dyn_hi = size_lit
    for c in calls(pre['body']):
        if c.get('name') == 'emitAt':
            ev = KBEval(F, {'randomx::sizeLiterals': KB.const(32, size_lit)})
            ev.env['randomx::sizeLiterals'] = KB.const(32, size_lit)
            a = _ev_const(F, c['a'][0], {'sizeLiterals': size_lit})
            if a is None:
                raise AnalysisBroken('rv64 emitProgramPrefix: emitAt position not constant: %s' % show(c['a'][0]))
            dyn_hi = max(dyn_hi, a - mid + 8)
    R.check(rlo >= dyn_hi and rlo % 8 == 0, 'rv64 RcpLiteralsOffset above the fixed and per-program literals', where, expected='RcpLiteralsOffset >= %d' % dyn_hi, found=rlo)
    # load displacement expression in h_IMUL_RCP: local `offset`
    hd = local_decls(h)
    lds = [c for op, c in emitted_ops(h['body']) if op == 'LD']
    if len(lds) != 1:
        raise AnalysisBroken('rv64 h_IMUL_RCP: expected one ld')
    ld_rvi = [c for c in calls(lds[0]) if c.get('name') == 'rvi'][0]
    # the displacement local is the one used as the immediate of the ld
    disp_ref = strip_all(ld_rvi['a'][-1])
    while disp_ref['k'] == 'Cast':
        disp_ref = strip_all(disp_ref['e'])
    disp_decl = [dd for dd in hd.values() if disp_ref['k'] == 'Ref' and dd['id'] == disp_ref.get('id')]
    if len(disp_decl) != 1 or 'init' not in disp_decl[0]:
        raise AnalysisBroken('rv64 h_IMUL_RCP: displacement of the literal load is not a local with an initialiser')
    hd = dict(hd, offset=disp_decl[0])
    base_reg = val(ld_rvi['a'][2])
    R.check(base_reg == F.const('randomx::LiteralPoolReg'), 'rv64 IMUL_RCP literal load base register', loc(lds[0], h), expected='x%s (literal pool pointer)' % F.const('randomx::LiteralPoolReg'), found=base_reg)
    # prologue: lla x3, literal_pool -> x3 = buffer + LiteralPoolOffset requires the pool label to sit at LiteralPoolOffset in the template copy
    # register-resident literals: which index is loaded from where
    # thresholds of the register arms in h_IMUL_RCP
    rc_conds = []
    for x in walk(h['body']):
        if x['k'] == 'If':
            c = strip_all(x['c'])
            if c['k'] == 'Bin' and c['op'] == '<' and 'rcpCount' in show(c['l']) and val(c['r']) is not None:
                rc_conds.append(val(c['r']))
    stored = set()
    refused_from = None
    paths = decoder.paths(f['body'])
    for n in range(0, max(pmax, 512) + 8):
        # choose the path of emitRcpLiteral1 for this n
        sel = None
        for p in paths:
            ok = True
            for c, t in p.conds:
                r = _ev_const(F, c, {'.rcpCount': n, 'sizeLiterals': size_lit})
                if r is None:
                    raise AnalysisBroken('rv64 emitRcpLiteral1: condition %s not decidable for rcpCount = %d' % (show(c), n))
                if bool(r) != t:
                    ok = False
                    break
            if ok:
                sel = p
                break
        if sel is None:
            raise AnalysisBroken('rv64 emitRcpLiteral1: no path for rcpCount = %d' % n)
        st = [c for e in sel.events if not isinstance(e, tuple) for c in calls(e) if c.get('name') == 'emitAt']
        thr = any(not isinstance(e, tuple) and e['k'] == 'Throw' for e in sel.events)
        if not st:
            if refused_from is None:
                refused_from = n
            R.check(thr, 'rv64 rcp literal %d refused' % n, where, expected='throw (no silent drop)', found='path without store or throw') if n == refused_from else None
            continue
        if refused_from is not None:
            R.violation('rv64 rcp literal %d stored after index %d was refused' % (n, refused_from), where, expected='contiguous index range', found='store')
        w = _ev_const(F, st[0]['a'][0], {'.rcpCount': n, 'sizeLiterals': size_lit})
        inc = [x for e in sel.events if not isinstance(e, tuple) for x in walk(e) if x['k'] == 'Un' and x['op'] in ('++', 'post++', 'pre++') or (x['k'] == 'Un' and '++' in x.get('op', ''))]
        disp = sx((rlo + n * 8), 12)
        loadaddr = mid + disp
        okaddr = w == loadaddr
        inpool = w is not None and 0 <= w and w + 8 <= pool
        nooverlap = w is not None and not (mid <= w < mid + dyn_hi) and w not in stored
        R.check(okaddr and inpool and nooverlap and bool(inc), 'rv64 rcp literal %d' % n, loc(st[0], f), expected='stored at pool + %d (= x3 %+d), inside [0, %d), not over fixed literals, counter advanced' % (loadaddr, disp, pool),
                found='stored at %s%s%s%s' % (w, '' if inpool else ' OUTSIDE the pool', '' if nooverlap else ' OVERLAPS literals/previous', '' if inc else ' counter not advanced'))
        if w is not None:
            stored.add(w)
    cap = refused_from if refused_from is not None else 0
    R.check(cap >= pmax, 'rv64 literal pool capacity', where, expected='>= RANDOMX_PROGRAM_MAX_SIZE = %d' % pmax, found=cap)
    # the displacement local in h_IMUL_RCP has the assumed form
    with astq.renaming({h['params'][0]['id']: 'ST'}), astq.nocasts():
        offs = showv(hd['offset']['init'])
    R.check(offs == '(%d + (ST.rcpCount * 8))' % rlo, 'rv64 IMUL_RCP load displacement', loc(hd['offset'], h), expected='RcpLiteralsOffset + rcpCount * 8', found=offs)
    # register-resident literals are loaded by the template from the same slots
    regs = {}
    for off_, mn, ops_, raw in program_insns(o):
        m = re.match(r'^(\w+), (-?\d+)\((gp|x3)\)$', ops_)
        if m and mn in ('fld', 'ld') and int(m.group(2)) >= rlo:
            regs.setdefault(m.group(1), set()).add(int(m.group(2)))
    R.extra['rv64_rcp_register_loads'] = {k: sorted(v) for k, v in regs.items()}
    nreg = max(rc_conds) if rc_conds else 0
    want = {rlo + 8 * i for i in range(nreg)}
    got = set().union(*regs.values()) if regs else set()
    R.check(nreg > 0 and got == want and all(len(v) == 1 for v in regs.values()), 'rv64 register-resident reciprocals', 'src/jit_compiler_rv64_static.S', expected='template loads literal slots %s into %d registers' % (sorted(want), nreg), found=sorted(got))


_OBJ = {}


def _ev_const(F, n, names, depth=0):
    """integer value of an expression whose leaves are constants, members/refs named in `names`, or namespace-scope constants
    (followed through their initialisers; `&template_label` resolves to the label's offset in the assembled template)"""
    n = strip_all(n)
    v = val(n)
    if v is not None and n['k'] not in ('Assign', 'CAssign'):
        return v
    k = n['k']
    if k == 'Cast':
        return _ev_const(F, n['e'], names, depth)
    if k in ('Ref', 'Mem'):
        nm = show(n).split('.')[-1].split('::')[-1].split('>')[-1]
        if k == 'Mem':
            nm = '.' + nm
        if nm in names:
            return names[nm]
        if k == 'Ref' and n.get('q') and depth < 12:
            try:
                g = F.glob(n['q'])
            except AnalysisBroken:
                return None
            if g.get('init') is not None:
                return _ev_const(F, g['init'], names, depth + 1)
        return None
    if k == 'Un' and n['op'] == '&':
        e = strip_all(n['e'])
        if e['k'] == 'Ref' and e.get('dk') == 'Function' and 'obj' in _OBJ:
            try:
                return _OBJ['obj'].sym(e['n'])
            except AnalysisBroken:
                return None
        return None
    if k == 'Bin':
        a, b = _ev_const(F, n['l'], names, depth), _ev_const(F, n['r'], names, depth)
        if a is None or b is None:
            return None
        op = n['op']
        if op == '/':
            return int(a / b) if b else None
        return {'+': lambda: a + b, '-': lambda: a - b, '*': lambda: a * b, '<': lambda: int(a < b), '<=': lambda: int(a <= b), '>': lambda: int(a > b), '>=': lambda: int(a >= b),
                '==': lambda: int(a == b), '!=': lambda: int(a != b), '&': lambda: a & b, '|': lambda: a | b, '<<': lambda: a << b, '>>': lambda: a >> b, '&&': lambda: int(bool(a) and bool(b)), '||': lambda: int(bool(a) or bool(b))}.get(op, lambda: None)()
    if k == 'Cond':
        c = _ev_const(F, n['c'], names, depth)
        if c is None:
            return None
        return _ev_const(F, n['t'] if c else n['f'], names, depth)
    if k == 'Un' and n['op'] == '-':
        a = _ev_const(F, n['e'], names, depth)
        return -a if a is not None else None
    if k == 'Un' and n['op'] == '!':
        a = _ev_const(F, n['e'], names, depth)
        return int(not a) if a is not None else None
    return None


def gconst(ctx, F, q):
    """value of a namespace-scope constant of the RV64 unit, template label differences included"""
    _OBJ['obj'] = ctx.obj('rv64')
    g = F.glob(q)
    v = val(g.get('init')) if g.get('init') is not None else None
    if v is None and g.get('init') is not None:
        v = _ev_const(F, g['init'], {})
    if v is None:
        raise AnalysisBroken('rv64: cannot evaluate %s' % q)
    return v


# ---------------------------------------------------------------------------------------------
def rule_jitmask(ctx, R, FI):
    F, hs = jit.handlers(ctx, 'rv64')
    mk = decode.masks(FI)
    o = ctx.obj('rv64')
    _OBJ['obj'] = o
    R.rule('MEM-JITMASK', 'RV64 memory operands: the address helpers pick the mask register of the level the decoder uses under the same conditions (mod.mem ? L1 : L2; store: mod.cond < 14 ? (mod.mem ? L1 : L2) : L3; src == dst: imm & L3 mask), '
           'the displacement is reduced to no fewer bits than the level has, and the mask registers are loaded by the template from literals that equal the C++ masks', min_instances=12)
    lit = o.sym('randomx_riscv64_literals')
    # mask register contents from the template: reg <- lwu disp(x3) [+ addi]
    regval = {}
    insns = program_insns(o)
    for i, (off_, mn, ops_, raw) in enumerate(insns):
        m = re.match(r'^(\w+), (-?\d+)\((gp|x3)\)$', ops_)
        if m and mn == 'lwu':
            reg, disp = m.group(1), int(m.group(2))
            v = o.u32(lit + disp)
            # a following addi reg, reg, k before the next control transfer adjusts the value
            for (o2, mn2, ops2, raw2) in insns[i + 1:i + 12]:
                m2 = re.match(r'^%s, %s, (-?\d+)$' % (reg, reg), ops2)
                if mn2 == 'addi' and m2:
                    v += int(m2.group(1))
                    break
                if re.match(r'^%s,' % reg, ops2):
                    break
            regval.setdefault(reg, set()).add(v)
    byreg = {}
    for r_, vs in regval.items():
        rn = regnum(r_)
        if rn is not None and rn[0] == 'x':
            byreg[rn[1]] = vs
    R.extra['rv64_mask_registers'] = {str(k): sorted(hex(x) for x in v) for k, v in byreg.items()}
    want = {F.const('randomx::MaskL1Reg'): ('L1', mk['L1']), F.const('randomx::MaskL2Reg'): ('L2', mk['L2'])}
    for reg, (lv, m_) in sorted(want.items()):
        R.check(byreg.get(reg) == {m_}, 'rv64 mask register x%s holds the %s mask' % (reg, lv), 'src/jit_compiler_rv64_static.S', expected=hex(m_), found=sorted(hex(x) for x in byreg.get(reg, [])))
    l3reg = F.const('randomx::MaskL3Reg')
    l3vals = {v for v in byreg.get(l3reg, set())}
    # x1 is shared: inside the loop body it must be the 8-byte L3 mask; other values belong to the dataset/line masks outside the program area
    R.check(mk['L3'] in l3vals, 'rv64 x%s holds the L3 mask while the program runs' % l3reg, 'src/jit_compiler_rv64_static.S', expected=hex(mk['L3']), found=sorted(hex(x) for x in l3vals))
    reg2lvl = {F.const('randomx::MaskL1Reg'): 'L1', F.const('randomx::MaskL2Reg'): 'L2', l3reg: 'L3'}
    log2 = {k: (int(FI.macro('RANDOMX_SCRATCHPAD_' + k)['body'])).bit_length() - 1 for k in ('L1', 'L2', 'L3')}
    offxc = F.const('randomx::OffsetXC')

    def analyse(fname):
        f = fn(F, fname)
        out = []
        for p in decoder.paths(f['body']):
            env = {}
            lvl = None
            shift_used = None
            for e in p.events:
                if isinstance(e, tuple):
                    continue
                for x in walk(e):
                    if x['k'] == 'Assign' and strip_all(x['l'])['k'] == 'Ref':
                        v = _ev_const(F, x['r'], env)
                        nm = strip_all(x['l']).get('n') or show(x['l'])
                        if v is not None:
                            env[nm] = v
                        # imm = (imm << shift) >> shift
                        s_ = [y for y in walk(x['r']) if y['k'] == 'Bin' and y['op'] == '>>']
                        if s_:
                            shift_used = _ev_const(F, s_[0]['r'], env)
                    if x['k'] == 'Decl':
                        for d in x['d']:
                            if 'init' in d:
                                v = _ev_const(F, d['init'], env)
                                if v is not None:
                                    env[d['name']] = v
                for op, c in emitted_ops(e):
                    if op in ('C_AND', 'AND'):
                        rc = [cc for cc in calls(c) if cc.get('name') in ('rvc', 'rvi')][0]
                        a = rc['a']
                        r = _ev_const(F, a[-1], env)
                        if op == 'C_AND' and r is not None:
                            r -= offxc
                        lvl = reg2lvl.get(r, 'x%s' % r)
            conds = []
            for c, t in p.conds:
                s = strip_all(c)
                if s['k'] == 'Call' and s.get('name') == 'getModMem':
                    conds.append(('mem', t))
                elif s['k'] == 'Bin' and s['op'] == '<' and strip_all(s['l']).get('name') == 'getModCond':
                    conds.append(('cond<%s' % _ev_const(F, s['r'], {}), t))
                else:
                    while s['k'] == 'Cast':
                        s = strip_all(s['e'])
                    if s['k'] == 'Call' and s.get('name') == 'getModMem':
                        conds.append(('mem', t))
                    else:
                        conds.append((show(s), t))
            out.append((tuple(conds), lvl, shift_used))
        return f, out

    exp_reg = {(('mem', True),): 'L1', (('mem', False),): 'L2'}
    f, got = analyse('genAddressReg')
    R.saw(fn=f['q'])
    for conds, lvl, sh in got:
        want_l = exp_reg.get(conds)
        R.check(want_l is not None and lvl == want_l and sh is not None and 32 - sh >= log2[want_l], 'rv64 genAddressReg [%s]' % (conds,), '%s:%d' % (f['file'], f['line']),
                expected='%s mask, displacement keeps >= %s bits' % (want_l, log2.get(want_l)), found='%s mask, shift %s' % (lvl, sh))
    R.check(len(got) == 2, 'rv64 genAddressReg has both arms', '%s:%d' % (f['file'], f['line']), expected=2, found=len(got))
    slc = FI.const('randomx::StoreL3Condition')
    exp_dst = {(('cond<%d' % slc, True), ('mem', True)): 'L1', (('cond<%d' % slc, True), ('mem', False)): 'L2', (('cond<%d' % slc, False),): 'L3'}
    f, got = analyse('genAddressRegDst')
    R.saw(fn=f['q'])
    for conds, lvl, sh in got:
        want_l = exp_dst.get(conds)
        R.check(want_l is not None and lvl == want_l and sh is not None and 32 - sh >= log2[want_l], 'rv64 genAddressRegDst [%s]' % (conds,), '%s:%d' % (f['file'], f['line']),
                expected='%s mask, displacement keeps >= %s bits' % (want_l, log2.get(want_l)), found='%s mask, shift %s' % (lvl, sh))
    R.check(len(got) == 3, 'rv64 genAddressRegDst has three arms', '%s:%d' % (f['file'], f['line']), expected=3, found=len(got))
    f = fn(F, 'genAddressRegImm')
    d = local_decls(f)
    e0 = [c for c in calls(f['body']) if c.get('name') == 'emitImm32']
    iref = strip_all(e0[0]['a'][1]) if e0 else None
    while iref is not None and iref['k'] == 'Cast':
        iref = strip_all(iref['e'])
    idecl = [dd for dd in d.values() if iref is not None and iref['k'] == 'Ref' and dd['id'] == iref.get('id')]
    ipar = jitfacts_instr_param(f)
    with astq.renaming({ipar: 'IN'} if ipar else {}), astq.nocasts():
        s = showv(idecl[0]['init']) if idecl and 'init' in idecl[0] else (showv(e0[0]['a'][1]) if e0 else None)
    R.check(s == '(randomx::unsigned32ToSigned2sCompl(IN.getImm32()) & %d)' % mk['L3'], 'rv64 genAddressRegImm', '%s:%d' % (f['file'], f['line']), expected='imm32 & ScratchpadL3Mask', found=s)
    e = [c for c in calls(f['body']) if c.get('name') == 'emitImm32']
    R.check(len(e) == 1 and val(e[0]['a'][3]) == F.const('randomx::SpadReg'), 'rv64 genAddressRegImm adds the scratchpad base', '%s:%d' % (f['file'], f['line']), expected='x9 = x5 + imm', found=[show(a) for a in e[0]['a'][2:4]] if e else None)
    # handlers use the helpers as the decoder uses the levels: loads through loadFromScratchpad (src != dst ? genAddressReg : genAddressRegImm), ISTORE through genAddressRegDst
    lf = fn(F, 'loadFromScratchpad')
    ps = []
    hh = jit.jitfacts.Handler(F, lf)
    for p in hh.paths:
        cs = [c.get('name') for c in p['helpers']]
        ps.append((tuple(p['conds']), tuple(n for n in cs if n.startswith('genAddress'))))
    R.check(sorted(ps) == sorted([((('dst != src', True),), ('genAddressReg',)), ((('dst != src', False),), ('genAddressRegImm',))]), 'rv64 loadFromScratchpad', '%s:%d' % (lf['file'], lf['line']),
            expected='src != dst ? genAddressReg : genAddressRegImm', found=ps)
    st = hs['ISTORE'].f
    hc = [c.get('name') for c in calls(st['body']) if c.get('name', '').startswith('genAddress')]
    R.check(hc == ['genAddressRegDst'], 'rv64 ISTORE address helper', '%s:%d' % (st['file'], st['line']), expected='genAddressRegDst', found=hc)
    n = 0
    for name, h in sorted(hs.items()):
        if name.endswith('_M') and name != 'ISTORE':
            hc = [c.get('name') for c in calls(h.f['body']) if c.get('name', '').startswith(('genAddress', 'loadFromScratchpad'))]
            n += 1
            if name.startswith('F'):
                R.check(hc == ['genAddressReg'], 'rv64 %s address helper' % name, '%s:%d' % (h.f['file'], h.f['line']), expected='genAddressReg (float loads never special-case src == dst)', found=hc)
            else:
                R.check(hc == ['loadFromScratchpad'], 'rv64 %s address helper' % name, '%s:%d' % (h.f['file'], h.f['line']), expected='loadFromScratchpad', found=hc)
    if n < 9:
        raise AnalysisBroken('rv64: only %d memory-operand handlers' % n)


# ---------------------------------------------------------------------------------------------
def rule_emask_pool(ctx, R):
    F, hs = jit.handlers(ctx, 'rv64')
    o = ctx.obj('rv64')
    _OBJ['obj'] = o
    R.rule('RV-EMASK', 'RV64 scalar JIT: emitProgramPrefix writes config.eMask[0..1] to the literal slots the template loads into the E-set mask registers used by the float-load handlers', min_instances=3)
    size_lit = o.sym('randomx_riscv64_literals_end') - o.sym('randomx_riscv64_literals')
    mid = F.const('randomx::LiteralPoolOffset')
    pre = fn(F, 'emitProgramPrefix')
    slots = {}
    for c in calls(pre['body']):
        if c.get('name') == 'emitAt' and 'eMask' in show(c['a'][1]):
            a = _ev_const(F, c['a'][0], {'sizeLiterals': size_lit})
            idx = val(strip_all(c['a'][1]).get('i')) if strip_all(c['a'][1])['k'] == 'Idx' else None
            slots[idx] = a - mid if a is not None else None
    lo, hi = F.const('randomx::MaskEsetLo'), F.const('randomx::MaskEsetHi')
    loads = {}
    for off_, mn, ops_, raw in program_insns(o):
        m = re.match(r'^(\w+), (-?\d+)\((gp|x3)\)$', ops_)
        if m and mn == 'ld':
            rn = regnum(m.group(1))
            num = rn[1] if rn and rn[0] == 'x' else None
            if num in (lo, hi):
                loads.setdefault(num, set()).add(int(m.group(2)))
    R.check(slots.get(0) is not None and loads.get(lo) == {slots.get(0)}, 'rv64 eMask[0] slot', '%s:%d' % (pre['file'], pre['line']), expected='written where x%s is loaded from: %s' % (lo, sorted(loads.get(lo, []))), found=slots.get(0))
    R.check(slots.get(1) is not None and loads.get(hi) == {slots.get(1)}, 'rv64 eMask[1] slot', '%s:%d' % (pre['file'], pre['line']), expected='written where x%s is loaded from: %s' % (hi, sorted(loads.get(hi, []))), found=slots.get(1))
    # the handlers that build E operands or the low / high lane with the respective register
    use = {}
    for name in ('FDIV_M',):
        f = hs[name].f
        regs = set()
        for c in calls(f['body']):
            if c.get('name') in ('rvi', 'rvc'):
                for a in c['a'][1:]:
                    v = _ev_const(F, a, {})
                    if v in (lo, hi) or (v is not None and v - F.const('randomx::OffsetXC') in (lo, hi) and c.get('name') == 'rvc'):
                        regs.add(v if v in (lo, hi) else v - F.const('randomx::OffsetXC'))
        use[name] = regs
        R.check(regs == {lo, hi}, 'rv64 %s applies both E-set masks' % name, '%s:%d' % (f['file'], f['line']), expected='x%s and x%s' % (lo, hi), found=sorted(regs))


# ---------------------------------------------------------------------------------------------
def rule_cgsize(ctx, R, FI):
    F, hs = jit.handlers(ctx, 'rv64')
    o = ctx.obj('rv64')
    _OBJ['obj'] = o
    R.rule('CG-SIZE-RV64', 'the RV64 code buffer holds the longest possible program: start of the instruction area + RANDOMX_PROGRAM_MAX_SIZE x (largest number of bytes any handler path emits, helpers included) + the template fragments '
           'appended by the generators <= RandomXCodeSize; likewise for the SuperscalarHash area', min_instances=3)
    per = F.const('randomx::MaxRandomXInstrCodeSize')
    pmax = int(FI.macro('RANDOMX_PROGRAM_MAX_SIZE')['body'])
    memo = {}

    def emit_bytes(c):
        fq = c.get('fn') or ''
        m = re.search(r'emit<(.*)>$', fq)
        if m:
            return {'unsigned int': 4, 'unsigned short': 2, 'unsigned long': 8, 'int': 4}.get(m.group(1))
        return None

    NOSIZE = ('emitAt', 'rvi', 'rvc', 'emitJump', 'emitRcpLiteral1', 'regR', 'regF', 'regE', 'regSS', 'regLoF', 'regHiF', 'regLoE', 'regHiE', 'regLoA', 'regHiA', 'regRcp', 'regRcpF', 'rvrd', 'rvrs1', 'rvrs2', 'rvcrs')

    def size(f, env=None, depth=0):
        """largest number of bytes emitted on any feasible path of f; conditions that are decided by constant arguments
        (e.g. emitImm32 called with src = x0) prune paths"""
        env = env or {}
        q = (f['q'], tuple(sorted(env.items())))
        if q in memo:
            return memo[q]
        if depth > 6:
            raise AnalysisBroken('CG-SIZE-RV64: recursion')
        best = 0
        for p in decoder.paths(f['body'], record_conds=True):
            tot = 0
            local = dict(env)
            feasible = True
            for e in p.events:
                if isinstance(e, tuple):
                    if e[0] == 'cond':
                        v = _ev_const(F, e[1], local)
                        if v is not None and bool(v) != e[2]:
                            feasible = False
                            break
                        continue
                    node = e[1]
                    body = node.get('b') or node
                    if any(c.get('name') == 'emit' or c.get('name', '').startswith(('emitImm', 'gen', 'load')) for c in calls(body)):
                        raise AnalysisBroken('CG-SIZE-RV64: emitting %s in %s' % (e[0], q[0]))
                    continue
                node = e
                for x in walk(node):
                    if x['k'] == 'Decl':
                        for d in x['d']:
                            v = _ev_const(F, d['init'], local) if 'init' in d else None
                            if v is not None:
                                local[d['name']] = v
                            else:
                                local.pop(d['name'], None)
                    if x['k'] in ('Assign', 'CAssign') and strip_all(x['l'])['k'] == 'Ref':
                        nm = strip_all(x['l']).get('n')
                        v = _ev_const(F, x['r'], local) if x['k'] == 'Assign' else None
                        if v is not None:
                            local[nm] = v
                        else:
                            local.pop(nm, None)
                    if x['k'] == 'CAssign' and x['op'] == '+=' and 'codePos' in show(x['l']) and val(x['r']) is not None:
                        tot += val(x['r'])
                for c in calls(node):
                    nm = c.get('name', '')
                    if nm == 'emit':
                        b = emit_bytes(c)
                        if b is None:
                            raise AnalysisBroken('CG-SIZE-RV64: emit of unknown width %s in %s' % (c.get('fn'), q[0]))
                        tot += b
                    elif nm in NOSIZE:
                        continue
                    elif c.get('fn') and F.has_func(c['fn']) and F.func(c['fn'])['file'].endswith(UNIT) and F.func(c['fn']).get('body') is not None:
                        g = F.func(c['fn'])
                        if len(F.overloads(c['fn'])) > 1:
                            raise AnalysisBroken('CG-SIZE-RV64: overloaded helper %s' % c['fn'])
                        env2 = {}
                        for prm, a in zip(g['params'], c.get('a', [])):
                            if domains.type_info(prm['ty']) is not None:
                                v = _ev_const(F, a, local)
                                if v is not None:
                                    env2[prm['name']] = v
                        tot += size(g, env2, depth + 1)
            if feasible:
                best = max(best, tot)
        memo[q] = best
        return best
    _OBJ['obj'] = o
    sizes = {}
    for name, h in sorted(hs.items()):
        sizes[name] = size(h.f)
    worst = max(sizes.values())
    R.extra['rv64_instruction_bytes'] = sizes
    R.extra['rv64_worst_instruction_bytes'] = dict(computed=worst, declared_MaxRandomXInstrCodeSize=per)
    # fragments of the template copied around the program by the two generators
    def frag(fname):
        f = fn(F, fname)
        best = 0
        for p in decoder.paths(f['body']):
            tot = 0
            for e in p.events:
                if isinstance(e, tuple):
                    continue
                for c in calls(e):
                    if c.get('name') == 'emit' and len(c.get('a', [])) == 2:
                        v = _ev_const(F, c['a'][1], {})
                        if v is None:
                            raise AnalysisBroken('CG-SIZE-RV64: fragment size %s not constant' % show(c['a'][1]))
                        tot += v
                    elif c.get('name') == 'emit' and len(c.get('a', [])) == 1:
                        tot += emit_bytes(c) or 0
                    elif c.get('name') == 'emitProgramSuffix':
                        tot += frag('emitProgramSuffix')
            best = max(best, tot)
        return best
    start = gconst(ctx, F, 'randomx::RandomXCodePos')
    total = F.const('randomx::RandomXCodeSize')
    tails = {g: frag(g) for g in ('generateProgram', 'generateProgramLight')}
    need = start + pmax * worst + max(tails.values())
    R.extra['rv64_program_area'] = dict(code_start=start, tail_fragments=tails, need=need, have=total)
    R.check(total is not None and need <= total, 'rv64 program buffer', 'src/jit_compiler_rv64.cpp', expected='RandomXCodePos %d + %d instructions x %d bytes (largest handler path) + template tail %d = %d <= RandomXCodeSize' % (start, pmax, worst, max(tails.values()), need), found=total)
    # the SuperscalarHash area starts where the program area ends and the copied template must put the pool label in the middle of the pool
    R.check(gconst(ctx, F, 'randomx::SuperScalarLiteralPoolOffset') == total, 'rv64 superscalar area follows the program area', 'src/jit_compiler_rv64.cpp', expected=total, found=gconst(ctx, F, 'randomx::SuperScalarLiteralPoolOffset'))
    # superscalar
    sper = F.const('randomx::MaxSuperscalarInstrSize')
    g = fn(F, 'generateSuperscalarCode')
    from rules.sshash import ss_types, switch_cases
    types = ss_types(FI)
    by_val = {v: k for k, v in types.items()}
    cases = switch_cases(FI, g, by_val)
    sworst = 0
    ssizes = {}
    for t, body in sorted(cases.items()):
        fake = dict(k='Compound', s=[s for s in body if s['k'] != 'Break'])
        ssizes[t] = size(dict(q='ss:' + t, body=fake))
    sworst = max(ssizes.values())
    R.extra['rv64_superscalar_bytes'] = ssizes
    ssmax = FI.const('randomx::SuperscalarMaxSize')
    acc = int(FI.macro('RANDOMX_CACHE_ACCESSES')['body'])
    have = F.const('randomx::SuperscalarSize')
    sstart = gconst(ctx, F, 'randomx::SuperScalarHashOffset') - total
    need = sstart + gconst(ctx, F, 'randomx::sizeSshInit') + acc * (ssmax * sworst + gconst(ctx, F, 'randomx::sizeSshLoad') + gconst(ctx, F, 'randomx::sizeSshPrefetch')) + 2
    R.check(have is not None and need <= have, 'rv64 superscalar buffer', 'src/jit_compiler_rv64.cpp', expected='pool %d + init + %d x (%d x %d + load + prefetch) + ret = %d <= SuperscalarSize' % (sstart, acc, ssmax, sworst, need), found=have)


# ---------------------------------------------------------------------------------------------------------------------------
# [RVV-RCPPOOL] the RV64 vector program generator: literal n of a program is stored where the instruction emitted for it reads it

class _RvvH:
    """hooks for the concrete slice of the IMUL_RCP case: records the literal store and the emitted words"""

    def __init__(self, F, d, s, imm):
        self.F = F
        self.words = []
        self.lit_stores = []
        self.d, self.s, self.imm = d, s, imm

    def sizeof(self, base):
        return None

    def leaf(self, n, env, sl):
        n0 = strip_all(n)
        if n0['k'] == 'Un' and n0.get('op') == '&':
            e = strip_all(n0['e'])
            if e['k'] == 'Ref' and e.get('id') in env:
                return ('&', e['id'])
            return None
        s_ = show(n0)
        if n0['k'] == 'Mem':
            if s_.endswith('.src'):
                return self.s
            if s_.endswith('.dst'):
                return self.d
            if s_.endswith('.mod'):
                return 0
        if n0['k'] == 'Idx':
            b = strip_all(n0['b'])
            i_ = sl.ev(n0['i'], env)
            init = None
            if b['k'] == 'Ref':
                if b.get('q') and self.F.has_glob(b['q']):
                    init = self.F.glob(b['q']).get('init')
                if init is None and b.get('id') in getattr(self, 'local_tables', {}):
                    init = self.local_tables[b['id']]
            if init is not None and init.get('k') == 'InitList' and i_ is not None:
                els = [val(e) for e in init['e']]
                if 0 <= i_ < len(els):
                    return els[i_]
                self.bad_index = (show(n0), i_, len(els))
                return None
        if n0['k'] == 'Ref' and n0.get('q') and self.F.has_glob(n0['q']):
            g = self.F.glob(n0['q'])
            if 'v' in g:
                return g['v']
        return None

    def call(self, n, args, env, sl):
        nm = n.get('name')
        if nm == 'memcpy' and len(args) == 3 and isinstance(args[1], tuple) and args[0] is not None and args[2] in (2, 4, 8):
            v = env.get(args[1][1])
            self.words.append((args[0], args[2], None if v is None else v & ((1 << (8 * args[2])) - 1)))
            return ('value', args[0])
        if nm == 'isZeroOrPowerOf2':
            a = args[0]
            return ('value', int(a is not None and (a & (a - 1)) == 0))
        if nm in ('randomx_reciprocal_fast', 'randomx_reciprocal'):
            return ('value', 0x1234567890ABCDEF)
        if nm == 'getImm32':
            return ('value', self.imm)
        if nm in ('getModShift', 'getModMem', 'getModCond'):
            return ('value', 0)
        fn_ = n.get('fn')
        if fn_ and self.F.has_func(fn_) and self.F.func(fn_).get('body') is not None and fn_.split('::')[-1] in ('imm_to_x5',):
            return ('inline', self.F.func(fn_))
        return None

    def store(self, n, env, sl):
        l = strip_all(n['l'])
        if l['k'] == 'Un' and l.get('op') == '*':
            e = strip_all(l['e'])
            if e['k'] == 'Un' and '++' in e.get('op', '') and e.get('post'):
                r = strip_all(e['e'])
                if r['k'] == 'Ref' and r.get('id') in env:
                    self.lit_stores.append(env[r['id']])
                    env[r['id']] += sl.scale(r.get('ty')) or 8
                    return
            if e['k'] == 'Ref' and e.get('id') in env:
                self.lit_stores.append(env[e['id']])
                return


def _rvv_template_literal_regs(ctx):
    """which register the RVV program template loads from which literal slot: `ld xN, off(x18)` / `fld fN, off(x18)` after `lla x18, <literals>`.
    (The vector template uses Zvkned mnemonics that the assembler available here rejects, so the source lines are parsed instead of an object file.)"""
    p = os.path.join(ctx.repo, 'src', 'jit_compiler_rv64_vector_static.S')
    if not os.path.exists(p):
        raise AnalysisBroken('RVV-RCPPOOL: src/jit_compiler_rv64_vector_static.S not found')
    xr, fr = {}, {}
    active = False
    for ln in open(p, errors='replace'):
        t = ln.split('//')[0].split('#')[0].strip() if not ln.strip().startswith('#') else ''
        m = re.match(r'^lla\s+x18\s*,\s*(\w+)', t)
        if m:
            active = 'rcp' in m.group(1)
            continue
        if not active:
            continue
        m = re.match(r'^(ld|fld)\s+([xf])(\d+)\s*,\s*(-?\d+)\(x18\)', t)
        if m:
            (xr if m.group(2) == 'x' else fr)[int(m.group(3))] = int(m.group(4))
        elif re.match(r'^\w+:', t) or re.match(r'^(lla|la|li|mv)\s+x18\b', t):
            active = False
    return xr, fr


def rule_rvv_rcp(ctx, R, FI):
    import slice as slc
    F, hs = jit.handlers(ctx, 'rvv')
    R.rule('RVV-RCPPOOL', 'RV64 vector program generator, IMUL_RCP: for every literal index n below RANDOMX_PROGRAM_MAX_SIZE the reciprocal is stored in slot n of the literal area and the instruction emitted for it multiplies by '
           'that slot: the register the template pre-loads from displacement 8n of the literal pointer, or `ld x5, 8n(x18)` whose sign-extended 12-bit displacement is decoded from the emitted word; the destination register is '
           'the VM register of the instruction; decided by evaluating the address arithmetic of the case for each n', min_instances=300)
    R.saw(config='K3', unit='src/jit_compiler_rv64_vector.cpp')
    h = hs['IMUL_RCP'].f
    g = F.func(jit.ARCH['rvv']['generator'])
    where = '%s:%d' % (h['file'], h['line'])
    pmax = int(FI.macro('RANDOMX_PROGRAM_MAX_SIZE')['body'])
    xr, fr = _rvv_template_literal_regs(ctx)
    if len(xr) + len(fr) < 8:
        raise AnalysisBroken('RVV-RCPPOOL: pre-loaded literal registers not found in the template (%d)' % (len(xr) + len(fr)))
    # the locals of the generator that the case uses: the literal cursor (pointer that is post-incremented through), its base, the code cursor
    body = {'k': 'Compound', 's': h['body']['s']}
    cursor = None
    for x in walk(body):
        if x['k'] == 'Un' and '++' in x.get('op', '') and strip_all(x['e'])['k'] == 'Ref' and '*' in (strip_all(x['e']).get('ty') or ''):
            cursor = strip_all(x['e'])
    if cursor is None:
        raise AnalysisBroken('RVV-RCPPOOL: literal cursor not found in the IMUL_RCP case')
    base = None
    for x in walk(g['body']):
        if x['k'] == 'Decl':
            for d in x['d']:
                if d.get('id') == cursor.get('id') and d.get('init') is not None:
                    b = strip_all(d['init'])
                    while b['k'] == 'Cast':
                        b = strip_all(b['e'])
                    if b['k'] == 'Ref':
                        base = b
    if base is None:
        raise AnalysisBroken('RVV-RCPPOOL: the literal cursor is not initialised from a base pointer')
    pvars = [c['a'][0] for c in calls(body) if c.get('name') == 'memcpy' and c.get('a')]
    pid = ref_id_any(pvars[0]) if pvars else None
    if pid is None:
        raise AnalysisBroken('RVV-RCPPOOL: code cursor not found')
    tables = {}
    for x in walk(body):
        if x['k'] == 'Decl':
            for d in x['d']:
                if d.get('init') is not None and d['init'].get('k') == 'InitList':
                    tables[d['id']] = d['init']
    LIT, CODE = 0x40000000, 0x50000000
    n_ok = 0
    for n in range(pmax):
        for d in ((2, 7) if n % 16 == 0 else (2,)):
            hk = _RvvH(F, d, (d + 3) % 8, 0x12345679)
            hk.local_tables = tables
            sl = slc.Slice(F, hk, {}, limit=5000, what='RVV-RCPPOOL')
            env = {cursor['id']: LIT + 8 * n, base['id']: LIT, pid: CODE}
            try:
                sl.run(body, env)
            except slc.NeedChoice as e:
                raise AnalysisBroken('RVV-RCPPOOL: condition %s is not decided by the literal index' % e.key)
            why = []
            if hk.lit_stores != [LIT + 8 * n]:
                why.append('literal stored at %s' % ['slot %s' % ((a - LIT) / 8.0) for a in hk.lit_stores])
            if env.get(cursor['id']) != LIT + 8 * (n + 1):
                why.append('cursor not advanced by one slot')
            if getattr(hk, 'bad_index', None):
                why.append('table %s indexed with %d (size %d)' % hk.bad_index)
            ws = [w for w in hk.words]
            if any(w[2] is None for w in ws):
                raise AnalysisBroken('RVV-RCPPOOL: an emitted word is not a constant for literal %d' % n)
            mul, desc = _rvv_decode(ws, xr, fr)
            if mul is None:
                why.append('no multiplication emitted')
            else:
                rd, rs1, held = mul
                if rd != 20 + d or rs1 != 20 + d:
                    why.append('multiplies x%d into x%d (the VM register is x%d)' % (rs1, rd, 20 + d))
                if held != ('lit', 8 * n):
                    why.append('multiplies by %s' % ('literal slot %s' % (held[1] / 8.0) if held and held[0] == 'lit' else 'a register that does not hold a literal (%s)' % (held,)))
            n_ok += 1
            R.check(not why, 'rvv rcp literal %d (dst r%d)' % (n, d), where, expected='stored in slot %d and multiplied from slot %d (displacement %d of x18)' % (n, n, 8 * n),
                    found='; '.join(why) + ' [' + ' ; '.join(desc) + ']' if why else 'as expected')
    if n_ok < 300:
        raise AnalysisBroken('RVV-RCPPOOL: only %d cases' % n_ok)


def _rvv_decode(ws, xr, fr):
    """abstract run of the words emitted for one IMUL_RCP: registers hold ('lit', displacement) / ('ptr', displacement from x18) / ('const', v)"""
    st = {('x', 18): ('ptr', 0), ('x', 0): ('const', 0)}
    for r_, off in xr.items():
        st[('x', r_)] = ('lit', off)
    for r_, off in fr.items():
        st[('f', r_)] = ('lit', off)
    mul = None
    desc = []
    for addr, size, w in ws:
        if size == 2:
            q, f3 = w & 3, w >> 13
            rd = (w >> 7) & 31
            if q == 1 and f3 == 3 and rd not in (0, 2):           # c.lui
                imm = sx((((w >> 12) & 1) << 17) | (((w >> 2) & 31) << 12), 18)
                st[('x', rd)] = ('const', imm)
                desc.append('c.lui x%d, %#x' % (rd, (imm >> 12) & 0xfffff))
            elif q == 1 and f3 == 2:                                # c.li
                imm = sx((((w >> 12) & 1) << 5) | ((w >> 2) & 31), 6)
                st[('x', rd)] = ('const', imm)
                desc.append('c.li x%d, %d' % (rd, imm))
            elif q == 2 and (w >> 12) == 9 and rd != 0 and ((w >> 2) & 31) != 0:     # c.add
                rs2 = (w >> 2) & 31
                a_, b_ = st.get(('x', rd)), st.get(('x', rs2))
                desc.append('c.add x%d, x%d' % (rd, rs2))
                if a_ and b_ and {a_[0], b_[0]} == {'const', 'ptr'}:
                    st[('x', rd)] = ('ptr', a_[1] + b_[1])
                elif a_ and b_ and a_[0] == b_[0] == 'const':
                    st[('x', rd)] = ('const', a_[1] + b_[1])
                else:
                    st[('x', rd)] = None
            else:
                desc.append('half-word %#06x' % w)
            continue
        if size != 4:
            desc.append('%d-byte datum' % size)
            continue
        opc, rd, f3, rs1, rs2, f7 = w & 0x7f, (w >> 7) & 31, (w >> 12) & 7, (w >> 15) & 31, (w >> 20) & 31, w >> 25
        if opc == 0x37:                                             # lui
            st[('x', rd)] = ('const', sx(w & 0xfffff000, 32))
            desc.append('lui x%d, %#x' % (rd, w >> 12))
        elif opc in (0x13, 0x1b) and f3 == 0:                       # addi / addiw
            imm = sx(w >> 20, 12)
            a_ = st.get(('x', rs1))
            desc.append('%s x%d, x%d, %d' % ('addi' if opc == 0x13 else 'addiw', rd, rs1, imm))
            if a_ and a_[0] in ('const', 'ptr'):
                v = a_[1] + imm
                st[('x', rd)] = (a_[0], sx(v, 32) if (opc == 0x1b and a_[0] == 'const') else v)
            else:
                st[('x', rd)] = None
        elif opc == 0x33 and f7 == 0 and f3 == 0:                   # add
            a_, b_ = st.get(('x', rs1)), st.get(('x', rs2))
            desc.append('add x%d, x%d, x%d' % (rd, rs1, rs2))
            if a_ and b_ and {a_[0], b_[0]} == {'const', 'ptr'}:
                st[('x', rd)] = ('ptr', a_[1] + b_[1])
            else:
                st[('x', rd)] = None
        elif opc == 0x03 and f3 == 3:                               # ld
            imm = sx(w >> 20, 12)
            a_ = st.get(('x', rs1))
            desc.append('ld x%d, %d(x%d)' % (rd, imm, rs1))
            st[('x', rd)] = ('lit', a_[1] + imm) if a_ and a_[0] == 'ptr' else None
        elif opc == 0x53 and f7 == 0x71 and f3 == 0 and rs2 == 0:   # fmv.x.d
            desc.append('fmv.x.d x%d, f%d' % (rd, rs1))
            st[('x', rd)] = st.get(('f', rs1))
        elif opc == 0x33 and f7 == 1 and f3 == 0:                   # mul
            desc.append('mul x%d, x%d, x%d' % (rd, rs1, rs2))
            mul = (rd, rs1, st.get(('x', rs2)))
        else:
            desc.append('word %#010x' % w)
    return mul, desc


def ref_id_any(n):
    n = strip_all(n)
    while n['k'] == 'Cast':
        n = strip_all(n['e'])
    return n.get('id') if n['k'] == 'Ref' else None


# ---------------------------------------------------------------------------------------------------------------------------
# [RVV-TPL-REINIT] registers that generated dataset-init code advances are re-initialised by the template in every round of its loop

def _asm_lines(path):
    """(line number, text) of the instruction / label lines of a .S file without comments and preprocessor lines"""
    t = open(path, errors='replace').read()
    t = re.sub(r'/\*.*?\*/', lambda m: re.sub(r'[^\n]', ' ', m.group(0)), t, flags=re.S)
    out = []
    for n_, ln in enumerate(t.split('\n'), 1):
        ln = ln.split('//')[0].strip()
        if not ln or ln.startswith('#'):
            continue
        out.append((n_, ln))
    return out


def rule_rvv_tpl_reinit(ctx, R):
    F, hs = jit.handlers(ctx, 'rvv')
    R.rule('RVV-TPL-REINIT', 'RV64 vector dataset initialisation: every scalar register that the generated SuperscalarHash code advances in place (a constant word `addi xR, xR, imm` emitted by generateDatasetInitVectorRV64, e.g. the literal '
           'pointer that is re-based after 255 reciprocals) is loaded by the template inside its item loop, between the loop head and the generated instructions, so that each group of items starts from the same value', min_instances=1)
    R.saw(config='K3', unit='src/jit_compiler_rv64_vector.cpp')
    g = [f for f in F.in_file('jit_compiler_rv64_vector.cpp') if f['name'] == 'generateDatasetInitVectorRV64']
    if len(g) != 1:
        raise AnalysisBroken('RVV-TPL-REINIT: generateDatasetInitVectorRV64 not found')
    g = g[0]
    R.saw(fn=g['q'])
    adv = {}
    nwords = 0
    for x in walk(g['body']):
        if x['k'] == 'Assign' and strip_all(x['l'])['k'] == 'Ref' and (strip_all(x['l']).get('ty') or '') in ('uint32_t', 'unsigned int'):
            v = val(x['r'])
            if v is None:
                continue
            nwords += 1
            if (v & 0x7f) == 0x13 and ((v >> 12) & 7) == 0:           # addi rd, rs1, imm
                rd, rs1 = (v >> 7) & 31, (v >> 15) & 31
                if rd == rs1 and rd != 0:
                    adv[rd] = (sx(v >> 20, 12), loc(x, g))
    if nwords == 0:
        raise AnalysisBroken('RVV-TPL-REINIT: no constant instruction word found in the generator')
    path = os.path.join(ctx.repo, 'src', 'jit_compiler_rv64_vector_static.S')
    lines = _asm_lines(path)
    # the generated area and the loop around it
    gen_i = [i for i, (n_, t_) in enumerate(lines) if re.match(r'^DECL\(randomx_riscv64_vector_sshash_generated_instructions\)\s*:', t_)]
    end_i = [i for i, (n_, t_) in enumerate(lines) if re.match(r'^DECL\(randomx_riscv64_vector_sshash_generated_instructions_end\)\s*:', t_)]
    if len(gen_i) != 1 or len(end_i) != 1:
        raise AnalysisBroken('RVV-TPL-REINIT: generated-instructions labels not found in the template')
    head = None
    for i in range(end_i[0], len(lines)):
        m = re.match(r'^(b\w+)\s+.*,\s*([A-Za-z_.][\w.]*)$', lines[i][1])
        if m:
            lab = m.group(2)
            tgt = [j for j, (n_, t_) in enumerate(lines) if re.match(r'^(DECL\()?%s\)?\s*:' % re.escape(lab), t_)]
            if tgt and tgt[0] < gen_i[0]:
                head = tgt[0]
                break
        if re.match(r'^ret\b', lines[i][1]):
            break
    if head is None:
        raise AnalysisBroken('RVV-TPL-REINIT: the backward branch that closes the item loop was not found after the generated instructions')
    if not adv:
        R.ok('no register is advanced in place by generated code', '%s:%d' % (g['file'], g['line']))
    for r_, (imm, where) in sorted(adv.items()):
        wr = [(n_, t_) for n_, t_ in lines[head:gen_i[0]] if re.match(r'^(lla|la|li|mv|lui|auipc|ld|lw|addi?|c\.\w+)\s+x%d\s*,' % r_, t_) and not re.match(r'^addi?\s+x%d\s*,\s*x%d\s*,' % (r_, r_), t_)]
        R.check(bool(wr), 'x%d (advanced by `addi x%d, x%d, %d` in generated code)' % (r_, r_, r_, imm), 'src/jit_compiler_rv64_vector_static.S:%d' % lines[head][0],
                expected='loaded between the loop head (line %d) and the generated instructions (line %d)' % (lines[head][0], lines[gen_i[0]][0]),
                found='`%s` at line %d' % (wr[0][1], wr[0][0]) if wr else 'not written inside the loop: every group of items after the first starts from the value the previous group left (generator: %s)' % where)


# ---------------------------------------------------------------------------------------------------------------------------
# [RVV-SS-RCPPOOL] dataset-init generator of the vector back-end: the n-th reciprocal of a key is loaded from where it was stored

def rule_rvv_ss_rcp(ctx, R):
    import slice as slc
    F, hs = jit.handlers(ctx, 'rvv')
    R.rule('RVV-SS-RCPPOOL', 'RV64 vector dataset-init generator, IMUL_RCP: for the n-th reciprocal of a key (n below the capacity of the literal area) the value is stored at literal slot n and the emitted `ld x5, off(x15)` reads that slot, '
           'x15 being the literal pointer as advanced by the `addi x15, x15, 2040` words emitted so far and off the sign-extended 12-bit displacement; the slot lies inside the literal area; decided by running the address arithmetic of the case for n = 0, 1, 2, ... in sequence', min_instances=60)
    R.saw(config='K3', unit='src/jit_compiler_rv64_vector.cpp')
    gs = [f for f in F.in_file('jit_compiler_rv64_vector.cpp') if f['name'] == 'generateDatasetInitVectorRV64']
    if len(gs) != 1:
        raise AnalysisBroken('RVV-SS-RCPPOOL: generateDatasetInitVectorRV64 not found')
    g = gs[0]
    R.saw(fn=g['q'])
    where = '%s:%d' % (g['file'], g['line'])
    sws = [x for x in walk(g['body']) if x['k'] == 'Switch']
    if len(sws) != 1:
        raise AnalysisBroken('RVV-SS-RCPPOOL: switch over the instruction kind not found')
    types = F.enum('randomx::SuperscalarInstructionType')
    stmts = sws[0]['b']['s'] if sws[0]['b']['k'] == 'Compound' else [sws[0]['b']]
    body, active = [], False
    for st in stmts:
        x = st
        labs = []
        while x['k'] in ('Case', 'Default'):
            labs.append(val(x['lhs']) if x['k'] == 'Case' else None)
            x = x['sub']
        if labs:
            active = types['IMUL_RCP'] in labs
        if active:
            if x['k'] == 'Break':
                active = False
                continue
            body.append(x)
    if not body:
        raise AnalysisBroken('RVV-SS-RCPPOOL: IMUL_RCP case not found')
    comp = {'k': 'Compound', 's': body}
    # locals of the generator used by the case: the two literal pointers (the one memcpy writes through = cursor), the code cursor, dst, imm32
    cursor = base = pcode = None
    for c in calls(comp):
        if c.get('name') == 'memcpy' and val(c['a'][2]) == 8:
            cursor = ref_id_any(c['a'][0])
        if c.get('name') == 'memcpy' and val(c['a'][2]) == 4:
            pcode = ref_id_any(c['a'][0])
    for x in walk(comp):
        if x['k'] == 'Bin' and x['op'] == '-' and ref_id_any(x['l']) == cursor and ref_id_any(x['r']) is not None:
            base = ref_id_any(x['r'])
    if None in (cursor, base, pcode):
        raise AnalysisBroken('RVV-SS-RCPPOOL: literal cursor / base / code cursor not identified')
    # capacity of the literal area in the template
    cap = None
    lines = _asm_lines(os.path.join(ctx.repo, 'src', 'jit_compiler_rv64_vector_static.S'))
    for i, (n_, t_) in enumerate(lines):
        m = re.match(r'^DECL\(randomx_riscv64_vector_sshash_imul_rcp_literals\)\s*:\s*(.*)$', t_)
        if m:
            rest = m.group(1) or (lines[i + 1][1] if i + 1 < len(lines) else '')
            mm = re.match(r'^\.fill\s+(\d+)\s*,\s*8\s*,', rest)
            if mm:
                cap = int(mm.group(1))
    if cap is None:
        raise AnalysisBroken('RVV-SS-RCPPOOL: capacity of the literal area not found in the template')
    LIT, CODE = 0x40000000, 0x50000000

    class H(_RvvH):
        def call(self, n, args, env, sl):
            nm = n.get('name') or ''
            if nm == 'memcpy' and len(args) == 3 and isinstance(args[1], tuple) and args[0] is not None and args[2] == 8:
                self.lit_stores.append(args[0])
                return ('value', args[0])
            if n.get('opcall') == '[]' or nm == 'operator[]':
                return ('value', 0x1234567890ABCDEF)
            return _RvvH.call(self, n, args, env, sl)
    ids = {}
    for x in walk(g['body']):
        if x['k'] == 'Decl':
            for d in x['d']:
                ids[d['name']] = d['id']
    env = {cursor: LIT, base: LIT, pcode: CODE}
    for nm_, v_ in (('dst', 3), ('src', 1), ('imm32', 7), ('modShift', 0)):
        if nm_ in ids:
            env[ids[nm_]] = v_
    x15 = LIT
    nbad = 0
    for n in range(cap):
        hk = H(F, 3, 1, 7)
        sl = slc.Slice(F, hk, {}, limit=5000, what='RVV-SS-RCPPOOL')
        try:
            sl.run(comp, env)
        except slc.NeedChoice as e:
            raise AnalysisBroken('RVV-SS-RCPPOOL: condition %s is not decided by the literal count' % e.key)
        why = []
        loads = []
        for addr, size, w in hk.words:
            if size != 4 or w is None:
                continue
            if w == 0x7F878793 or ((w & 0x7f) == 0x13 and ((w >> 12) & 7) == 0 and ((w >> 7) & 31) == 15 and ((w >> 15) & 31) == 15):
                x15 += sx(w >> 20, 12)
            elif (w & 0x7f) == 0x03 and ((w >> 12) & 7) == 3 and ((w >> 15) & 31) == 15:
                loads.append(x15 + sx(w >> 20, 12))
        if len(hk.lit_stores) != 1:
            why.append('%d literal stores' % len(hk.lit_stores))
        else:
            a = hk.lit_stores[0]
            if a != LIT + 8 * n:
                why.append('stored at slot %s' % ((a - LIT) / 8.0))
            if not (LIT <= a and a + 8 <= LIT + 8 * cap):
                why.append('outside the %d-entry literal area' % cap)
            if loads != [a]:
                why.append('the emitted load reads %s' % (['slot %s' % ((l_ - LIT) / 8.0) for l_ in loads] or 'nothing'))
        if why:
            nbad += 1
        if why or n % 8 == 0 or n in (254, 255, 256, 257, 510, 511):
            R.check(not why, 'rvv dataset-init reciprocal %d' % n, where, expected='stored in slot %d and loaded from slot %d' % (n, n), found='; '.join(why) or 'as expected')
        if nbad > 8:
            break
    R.extra['rvv_ss_literal_capacity'] = cap
