"""C07 Every program terminates within a fixed instruction budget."""
import astq
from rules import a64hsem, decode, jit, jitcross, rv64, x86hsem, rtpreserve

LEVEL = 'other'
TECHNIQUE = 'known-bits abstract interpretation of the branch constant for all 16 shifts + decoder path enumeration (write sets vs last-writer marks) + sibling agreement of the JIT back-ends'
CLAIM = ('Decides statically the three structural facts the termination argument of the design rests on, for the interpreter completely and for the x86/A64/RV64 JITs as agreement '
         'with the interpreter: (1) for every condition shift the branch constant has bit b set and bit b-1 clear and the mask is JUMP_BITS contiguous bits at b (so, by the arithmetic lemma in '
         'DESIGN.md, at most two consecutive taken branches); (2) the jump target is the instruction after the last writer of the *branch* register and the branch marks all registers; '
         '(3) the last-writer table over-approximates what each executor can write, so the loop body neither modifies the branch register nor contains another branch.'
         ' For A64 additionally: last-writer marks are recorded only after the last instruction word of a handler (LW-POS); for RV64: each of the three branch forms is used only within its encodable distance and scatters the distance bits as the ISA requires (RV-BRANCH-RANGE, RV-BRANCH-ENC).'
         ' The RV64 vector generator is included in the last-writer comparison; the far branch form of the scalar RV64 back-end is decoded (it must branch over the jal exactly when the masked value is non-zero).'
         ' The value every back-end stores in its last-writer table is the instruction being translated (its index, or the code position after it), never an older mark (LW-VALUE x4).'
         ' x86 CBRANCH bytes: `add dst, imm` with the immediate of 5.4.3, `test dst, 0xFF << (mod.cond + 8)`, and a `jz` whose displacement lands exactly on the code offset of the instruction after the last writer of the register (X86-CBR-HSEM, decoded bytes, 1064 cases).'
         ' A64 CBRANCH words: the add sequence leaves dst + the immediate of 5.4.3, `tst` uses the decoded mask 0xFF << (mod.cond + 8) on the same register, and `b.eq` lands exactly on the offset recorded in reg_changed_offset for the register (A64-CBR-HSEM, 1848 cases).')
LEVEL_NOTE = ('Trusted: the arithmetic lemma (proved in DESIGN.md, independent of the code); clang AST; for the JITs the write sets of emitted native code are taken to be those of the '
              'interpreter (sibling agreement of marks only).')
EXPLANATION = ('CBR-BITS (16 shifts x engines), CBR-TARGET, LW-SOUND and LW-SPEC over the 46 decoder paths, LW-SIB between engines. CBR-BITS/TARGET for A64 and RV64, LW-POS, RV-BRANCH-RANGE, RV-BRANCH-ENC.'
         ' LW-VALUE x4.'
         ' X86-CBR-HSEM.'
         ' A64-CBR-HSEM.')

CLAIM += (' Vector RISC-V back-end: the register that holds the CBRANCH condition mask for the whole program is loaded from one entry of randomx_masks and every reload inside the loop uses the same entry (RVV-RT-CONST).')
EXPLANATION += ' RVV-RT-CONST.'

TECHNIQUE += '; constant-reload agreement over the disassembly of the hand-written vector runtime'

EXPLANATION += ' LW-POS-EXEC, RVV-RT-GENINPUT.'
CLAIM += (' A64: the value of every mark a handler stores into the last-writer table - also the eight marks after a branch, also through a helper - is the code position after the last emitted word, decided by executing the handler at a concrete position (LW-POS-EXEC). Vector RISC-V: the registers that generated code only reads (CBRANCH mask source, scratchpad base and masks; collected by executing every handler of the generator and disassembling its words) are left with their entry value by every piece of the hand-written loop (RVV-RT-GENINPUT).')


def run(ctx, R):
    F = astq.Facts(ctx, 'K0')
    R.saw(config='K0')
    decode.rule_cbr(ctx, R, F)
    decode.rule_lw(ctx, R, F)
    decode.rule_tab_opc(ctx, R, F)
    jit.rule_lw_sib(ctx, R, 'x86', F)
    jit.rule_cbr_x86(ctx, R, F)
    jit.rule_lw_sib(ctx, R, 'a64', F)
    jit.rule_lw_sib(ctx, R, 'rv64', F)
    jitcross.rule_cbr_a64(ctx, R, F)
    jitcross.rule_lwpos_a64(ctx, R)
    rv64.rule_cbr(ctx, R, F)
    rv64.rule_branch_forms(ctx, R)
    jit.rule_lw_sib(ctx, R, 'rvv', F)
    for arch_ in ('x86', 'a64', 'rv64', 'rvv'):
        jit.rule_lw_value(ctx, R, arch_)
    x86hsem.rule_cbranch(ctx, R)
    a64hsem.rule_cbranch(ctx, R)
    rtpreserve.rule_const(ctx, R, 'rvv')     # the CBRANCH mask register of the vector back-end
    jitcross.rule_lwexec_a64(ctx, R)
    rtpreserve.rule_rvv_geninput(ctx, R)
