"""C06 Execution and code generation stay inside their buffers for every program."""
import astq
from rules import a64hsem, aes, cgsize, decode, driver, dsinit, jitcross, membound, rv64, rvhsem, sshash, x86hsem

LEVEL = 'other'
TECHNIQUE = ('max-plus abstract interpretation of the x86 emitter against the assembled fragment sizes, mask-set and typestate rules on every scratchpad address of the interpreter, interval arithmetic on dataset/cache indices, constant agreement C++ vs .S'
         '; symbolic translation validation of the memory-form handlers and ISTORE of the three JIT back-ends (emitted code decoded and interpreted on terms with a symbolic scratchpad base)')
CLAIM = ('Decides statically for every program word, configuration block and register content: each interpreter scratchpad address is formed by masking with one of three in-range masks; '
         'loop addresses are masked before every use; dataset and cache line indices stay inside their allocations (interval arithmetic on the configured sizes); the worst-case x86 code '
         'position (384 x longest encoding + soft-AES tail) never reaches the SuperscalarHash routine and the longest SuperscalarHash never reaches the epilogue; every copy into the code buffer is accounted '
         'for; layout constants shared with the .S file agree; the hashing API passes exactly (input, inputSize) and 32 output bytes. Addresses formed inside hand-written asm and emitted code are trusted '
         '(their mask constants are cross-checked).'
         ' The same code-size bound is decided for the A64 back-end (per-instruction code + literals against the reserve of the assembled template) and the RV64 back-end (instruction area + largest handler path x RANDOMX_PROGRAM_MAX_SIZE + template tail <= buffer), and every RV64 IMUL_RCP literal is stored inside the 4 KiB pool where the emitted load reads it.'
         ' BIND-EXCL (a light VM must ignore setDataset, else it reads the dataset object as a cache) and AES-COVER (the AES loops touch exactly the blocks of their buffer) are included.'
         ' Emitted code: for every memory-form integer instruction and ISTORE the x86, A64 and RV64 handlers access exactly scratchpad + ((reg + sext(imm32)) & mask) with an in-range mask, decided on the decoded instructions (X86- / A64- / RV-MEM-HSEM); a VM is re-bound whenever anything a bind captures differs (BIND-GUARD), so it never reads a cache it is no longer bound to.')
LEVEL_NOTE = 'Trusted: clang AST; the assembled object of jit_compiler_x86_static.S reflects the fragments memcpy\'d at run time; SuperscalarProgram::getSize() <= SuperscalarMaxSize (rule SS-SIZE in C09).'
EXPLANATION = ('MEM-MASKSET, MEM-ADDRFORM, MEM-SPADDR, MEM-DSBOUND, CG-SIZE-X86 (D-size), CG-LAYOUT, API-IO, B2-INBOUND. CG-SIZE-A64, CG-SIZE-RV64, RV-RCPPOOL. BIND-EXCL, AES-COVER.'
         ' X86-/A64-/RV-MEM-HSEM, BIND-GUARD.')

CLAIM += (' The effective address of every memory-form instruction and of ISTORE, as the three JIT back-ends emit it, is the masked term of specification 5.2.5 on every boundary immediate (X86-MEM-HSEM, A64-MEM-HSEM, RV-MEM-HSEM, scalar and vector), and the dataset offset range is evaluated from the configuration (DS-RANGE-EVAL).')
EXPLANATION += ' X86-MEM-HSEM, A64-MEM-HSEM, RV-MEM-HSEM, DS-RANGE-EVAL.'


def run(ctx, R):
    F = astq.Facts(ctx, 'K0')
    R.saw(config='K0')
    decode.rule_maskset(ctx, R, F)
    membound.rule_spaddr(ctx, R, F)
    membound.rule_dsbound(ctx, R, F)
    cgsize.rule_x86(ctx, R, F)
    cgsize.rule_layout(ctx, R, F)
    driver.rule_api_io(ctx, R, F)
    membound.rule_b2_inbound(ctx, R, F)
    sshash.rule_size(ctx, R, F)
    jitcross.rule_cgsize_a64(ctx, R, F)
    rv64.rule_cgsize(ctx, R, F)
    rv64.rule_rcppool(ctx, R, F)
    aes.rule_cover(ctx, R, F)
    driver.rule_bind_excl(ctx, R)
    x86hsem.rule_mem_hsem(ctx, R)    # every scratchpad access of the emitted memory-form instructions is masked with an in-range mask
    driver.rule_bind_guard(ctx, R, F)    # a VM reads the cache / dataset it is bound to: the binding follows every set_cache that changes what a bind captures
    a64hsem.rule_mem_hsem(ctx, R)
    rvhsem.rule_mem_hsem(ctx, R)
    dsinit.rule_range(ctx, R, F)    # dataset initialisation writes exactly the requested items, never past the range or the allocation
    rvhsem.rule_mem_hsem(ctx, R, 'rvv')
