"""C12 AES generators and fingerprint match FIPS-197 rounds in software and hardware."""
import astq
from rules import aes, aeshw, portable

LEVEL = 'other'
TECHNIQUE = ('proof by byte-wise decomposition of the table-driven round against FIPS-197 computed from first principles (16 x 256 contributions per function, exhaustive), structural extraction of per-lane round patterns compared with the lane diagrams and hex keys of the specification; evaluation of the address-arithmetic slice of the AES loops; symbolic normal form of the hardware-AES wrappers under the architectural meaning of the NEON intrinsics; lane-accessor agreement across four configurations'
         '; known-bits check of every conversion of a size-derived value; vector-length requirement of the RVV kernels (max of vl x SEW / LMUL over their intrinsic calls) against the run-time dispatch condition')
CLAIM = ('Decides statically: (1) soft_aesenc / soft_aesdec compute exactly the FIPS-197 encryption / decryption round for all 2^128 states and all keys - both are XOR-sums of one function per input byte, '
         'so equality of the 4096 per-byte contributions (from the source\'s 16 look-ups and all 2048 table words) is equality everywhere; (2) all table words equal their GF(2^8) derivation; '
         '(3) keys, initial states and per-lane encrypt/decrypt/key patterns of AesGenerator1R, AesGenerator4R, AesHash1R equal spec 3.2-3.4 in both softAes flavours; (4) the fused fingerprint-and-refill has the '
         'patterns of its two components, reads each block before overwriting it, covers exactly the buffer and writes the fill state back; (5) aesenc<>/aesdec<> select the encrypt/decrypt primitive of the right flavour; '
         'the x86 hard-AES JIT fragment has the interpreter\'s F/E mix order. The hardware AES instructions themselves are trusted ISA.'
         ' Also: (6) for every size that is a multiple of 64 each of the four AES functions touches exactly the blocks of its buffer once, in ascending order, the fused one reading before writing (AES-COVER, evaluated on the address-arithmetic slice for sizes around the 4096-byte prefetch distance); (7) the 32-bit lane accessors number lanes identically in the SSE2, SSE4.1/AVX2 (x86-64-v3), NEON and generic configurations (AES-LANES); (8) the AArch64 hardware wrappers normalise to MixColumns(SubBytes(ShiftRows(a))) ^ key with the key added last (AES-HW-WRAP); (9) every instruction-set macro that selects code is an analysed axis or declared unanalysed (CFG-COVER).'
         ' (10) no value derived from the size parameter loses bits on its way to the loop bound and no counter narrower than the bound is compared with it, so sizes of 4 GiB and more are processed whole (AES-WIDTH); (11) the RVV software-AES kernels are called only when the CPU reports a vector length of at least what their intrinsic calls need (RVV-VLEN; the kernels themselves are intrinsics code outside the analysed configurations).'
         ' (12) on a big-endian target the vector load / store wrappers through which the generators and the fingerprint read and write their 16-byte blocks keep the little-endian lane image (PORT-ENDIAN, byte-accurate evaluation on a big-endian cross parse).')
LEVEL_NOTE = 'Trusted: clang AST; AES-NI / ARMv8 AES instruction semantics; the lane numbering of _mm_set_epi32 / _mm_shuffle_epi32 (checked by constant, not re-derived).'
EXPLANATION = ('AES-ROUND + AES-TTABLE (2 x 4096 contributions, 2048 words), SPEC-AESKEYS (18 constants x 2 flavours), SPEC-AESPATTERN, AES-FUSED, AES-SWITCH, AES-ASM. AES-COVER, AES-LANES (K0/K4/K2/K1), AES-HW-WRAP (K2), CFG-COVER.'
         ' AES-WIDTH, RVV-VLEN. PORT-ENDIAN (K6).')

TECHNIQUE += '; byte-accurate abstract evaluation of the vector load / store wrappers on a big-endian cross parse'


def run(ctx, R):
    F = astq.Facts(ctx, 'K0')
    R.saw(config='K0')
    aes.rule_round(ctx, R, F)
    aes.rule_patterns(ctx, R, F)
    aes.rule_fused(ctx, R, F)
    aes.rule_asm(ctx, R, F)
    aes.rule_cover(ctx, R, F)
    aes.rule_width(ctx, R, F)
    aeshw.rule_lanes(ctx, R)
    aeshw.rule_hw_wrap(ctx, R)
    aeshw.rule_cfg_cover(ctx, R)
    aeshw.rule_rvv_vlen(ctx, R)
    portable.rule_endian(ctx, R)
