"""C17 The portable (non-SIMD) code path computes the same function."""
import astq
from rules import aes, decode, driver, interpsem, portable, dsinit

LEVEL = 'other'
TECHNIQUE = 'type-checking and resolved-AST rules on a second configuration (generic fallback macros) that no test compiles: lane-symmetry of the vector emulation, rounding-mode map vs spec table, dominance rules on the fenv driver, FIPS-197 decomposition of the soft AES round with the fallback lane accessors; bit-routing proof / counterexample search for the integer helpers'
CLAIM = ('Decides statically, on the generic configuration (no SSE2/AES/int128 - the code architectures without a dedicated port rely on, which the suite never compiles): every unit type-checks; each two-lane fallback operation is '
         'lane-symmetric with the operator its name says and uses the SSE lane numbering; int32 -> double conversion is signed; the fenv rounding-mode map equals spec Table 4.3.1, is applied unconditionally and keeps no state; '
         'the hash driver saves / restores the fenv around everything and resets it before every program; the soft AES round with the fallback lane accessors is still the FIPS-197 round; the decoder rules hold unchanged; '
         'rotates, mulh and smulh have their canonical two-shift / schoolbook / signed-correction forms. Numeric equality of per-lane double arithmetic and of the 32x32 multiplication with the SIMD / int128 results is not claimed.'
         ' PORT-INT is sound both ways: the reference form is accepted as the textbook algorithm, rotr / rotl in any other form are decided by known-bits bit routing for all 64 counts, mulh / smulh in any other form are either refuted by a concrete operand pair (evaluated with fixed-width arithmetic, undefined shifts included) or reported as undecidable (exit 2).'
         ' Interpreter executors: the body of every integer executor is evaluated symbolically on terms and must equal the term of specification 5.2 (INT-EXEC: 17 executors, every shift, all three masks), and every floating-point executor applies the operation of 5.3 to the right operands, with the converted scratchpad operand and, for FDIV_M, the mantissa / exponent masks (FP-EXEC, uninterpreted vector operations; the rx_* wrappers of the host configuration are the packed-double intrinsics of the same name). (evaluated on the portable configuration).'
         ' Byte order: the big-endian branches of load32 / load64 / store32 / store64, of the 128-bit vector load / store wrappers and of the two casts between the integer and the floating-point vector are evaluated byte by byte on a big-endian cross configuration (s390x parse, native-order union layout) and must produce / consume the little-endian image (PORT-ENDIAN); the suite never compiles these branches.')
LEVEL_NOTE = 'Trusted: clang AST with -U__SSE2__ -U__SSE__ -U__AES__ -U__SIZEOF_INT128__ -U__x86_64__ (host libstdc++ headers + two stub headers); IEEE-754 double arithmetic of the host; glibc fenv.'
EXPLANATION = ('PORT-TYPECHECK (25 units), DRV-FPENV/DRV-RESET on K1, PORT-ROUND, PORT-LANEOPS, PORT-CVT, PORT-INT, AES-ROUND on K1, decoder rules on K1.'
         ' INT-EXEC, FP-EXEC on K1. PORT-ENDIAN on K6 (big-endian cross parse). SPEC-DSCONST / DS-ITEM on K1.')

TECHNIQUE += '; byte-accurate abstract evaluation of the byte-order branches on a big-endian cross parse (s390x)'

EXPLANATION += ' DS-ITEM by evaluation on K1.'

EXPLANATION += ' PORT-ENDIAN-PAIR.'


def run(ctx, R):
    F1 = portable.rule_typecheck(ctx, R, 'K1')
    driver.rule_fpenv(ctx, R, F1, 'K1')
    driver.rule_reset(ctx, R, F1, 'K1')
    portable.rule_round(ctx, R, F1, 'K1')
    portable.rule_laneops(ctx, R, F1)
    portable.rule_int(ctx, R, F1)
    aes.rule_round(ctx, R, F1)
    decode.rule_operands(ctx, R, F1)
    decode.rule_lw(ctx, R, F1)
    interpsem.rule_int_exec(ctx, R, F1)
    interpsem.rule_fp_exec(ctx, R, F1)
    portable.rule_endian(ctx, R)
    dsinit.rule_dsconst(ctx, R, F1)      # dataset item construction as the portable configuration compiles it (its prefetch / vector macros expand differently)
    portable.rule_endian_pair(ctx, R)
