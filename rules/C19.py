"""C19 ARM64 JIT output is equivalent to the interpreter."""
import astq
from rules import a64hsem, a64patch, a64sem, genreset, jit, jitcross, rtpreserve, a64dsread, a64fp, cfrcross, readreg

LEVEL = 'other'
TECHNIQUE = ('cross-target parse (clang --target=aarch64) of the back-end that this host never compiles + sibling agreement with the interpreter on resolved-AST feature vectors, known-bits and A64 logical-immediate decoding of emitted constants, max-path code-size bound against the assembled template, known-bits abstract execution of the immediate helpers over 529 immediate classes'
         '; symbolic translation validation of the integer register-form handlers: known-bits execution of the emitter for constant instruction fields, decoding of the emitted code, application to a register file of terms over r0..r7, comparison of normal forms with the terms of specification 5.2; path-count analysis of template patch sites; needs / must-set summaries of generator state')
CLAIM = ('Decides statically, on the AArch64 configuration: the back-end and its companion units type-check; its opcode table, last-writer marking per instruction and guard, src == dst special-casing, IMUL_RCP no-op rule '
         'agree with the interpreter; CBRANCH constants and the decoded tst mask are right for all 16 shifts and the jump target is the last writer of the branch register; marks are taken after the '
         'instruction\'s last word; scratchpad level masks (decoded logical immediates) and their selection conditions equal the decoder\'s; every v1/v2 patch of the persistent code buffer is undone by the other arm; the SuperscalarHash '
         'emitter handles all 14 kinds; per-instruction code + literals fit the template\'s reserve; RW/RX/RWX helpers and mapping sizes are consistent; the two immediate helpers leave sext64(imm32) resp. x{src} + sext64(imm32) in the destination register for every imm32 and both states of the literal table (known-bits abstract execution with the architectural meaning of movz/movn/movk/add/smov/umov).'
         ' The meaning of the emitted words is decided for the ten integer register-form instructions (A64-HSEM: 3640 cases, rotation counts 0..63, 16 boundary immediates, literal table free / exhausted) and for the SuperscalarHash emitter except IMUL_RCP (A64-SS-HSEM), by symbolic execution on a register file of terms; every template patch site is rewritten with a path-independent number of words (A64-PATCHLEN) and no generator member survives a generate* call (GEN-RESET). The floating-point handlers remain covered by the structural rules only.'
         ' The six memory-form integer instructions and ISTORE are validated the same way with a symbolic scratchpad: the emitted code must access exactly scratchpad + ((src + sext(imm32)) & mask) with the L1 / L2 / L3 mask the specification selects (src == dst: imm32 & L3 mask), the and-immediates being decoded by the A64 logical-immediate rules (A64-MEM-HSEM); marks are the current code position (LW-VALUE).'
         ' A64 CBRANCH words: the add sequence leaves dst + the immediate of 5.4.3, `tst` uses the decoded mask 0xFF << (mod.cond + 8) on the same register, and `b.eq` lands exactly on the offset recorded in reg_changed_offset for the register (A64-CBR-HSEM, 1848 cases).')
LEVEL_NOTE = 'Trusted: clang cross parse with host libstdc++ headers plus two stub headers; the clang assembler and llvm-objdump for jit_compiler_a64_static.S; A64 instruction semantics as written into the checker (integer, logical-immediate, load / store pair subset); value semantics of the hand-written runtime beyond the fragments listed in the claim.'
EXPLANATION = ('PORT-TYPECHECK(K2), TAB-OPC, LW-SIB, SPLIT-SIB, RCP-NOOP, CBR-BITS/TARGET, LW-POS, V2-SYM, MEM-JITMASK, IMM-NEG, SS-EXH, CG-SIZE-A64, WX-ARCH, A64-EMASK, A64-IMMHELP.'
         ' A64-HSEM, A64-SS-HSEM, A64-PATCHLEN, GEN-RESET.'
         ' A64-MEM-HSEM, LW-VALUE.'
         ' A64-CBR-HSEM.')

CLAIM += (' Hand-written runtime (jit_compiler_a64_static.S, assembled for the target and read back from the disassembly): every routine called while a program or the dataset loop runs leaves every register that is read afterwards unchanged - the callee is followed instruction by instruction with its frame slots, the registers generated SuperscalarHash code can write are added, and the result is compared with backward liveness in which generated code reads IntRegMap and the IMUL_RCP literal registers (A64-RT-PRESERVE); literal register i of h_IMUL_RCP is the register the prologue loads from literal slot i and no piece of the loop changes it (A64-RCPLIT); prologue constants are never reloaded from another entry (A64-RT-CONST); the light-mode dataset offset patched into the template is the configured one (A64-DSOFF); the full-memory dataset read (generated XOR word + v1 / v2 piece + static text with the masks the generator writes) executed on terms performs specification 4.6.2 steps 5-8 (A64-DSREAD-HSEM).')
EXPLANATION += ' A64-RT-PRESERVE (18 call sites), A64-RCPLIT (12 literal registers), A64-RT-CONST, A64-DSOFF, A64-DSREAD-HSEM (v1 / v2 dataset read of full-memory mode on terms).'

TECHNIQUE += '; def-use, backward liveness and a frame-slot value-preservation analysis over the disassembly of the hand-written runtime assembled for the target'

EXPLANATION += ' A64-RT-STOREORDER, CTOR-INIT.'

EXPLANATION += ' A64-LOOPLOAD, A64-DSREAD-LIGHT.'
CLAIM += (' The load half of the loop, with the scratchpad masks either generator writes, executed on terms: r_j ^= quadword j at scratchpad + (spMix low & L3 mask); the sixteen sign-extended 32-bit integers at scratchpad + (spMix high & L3 mask) go to the lanes of v16..v23 in order; only e0-e3 are masked (A64-LOOPLOAD).')

EXPLANATION += ' A64-DSITEM-HSEM.'

EXPLANATION += ' A64-FP-HSEM.'
CLAIM = CLAIM.replace(' The floating-point handlers remain covered by the structural rules only.', '')
CLAIM += (' The nine floating-point handlers are validated at word level on a vector register file of lane terms: operation, operand registers and lanes of specification 5.3, the memory operand converted from the two 32-bit integers at the masked scratchpad address, FDIV_M through the mask operation and registers of the loop head, FSCAL_R with the register the prologue fills with 0x80F0000000000000 (A64-FP-HSEM).')

EXPLANATION += ' A64-CFR-BITS.'
CLAIM += (' CFROUND is decided bit by bit for all 64 rotation counts, v1 and v2: source bit imm mod 64 reaches FPCR<23>, the next one FPCR<22> (Table 4.3.1 in the RMode encoding), no other FPCR bit and no VM register changes, the v2 branch tests bits 2-5 of the rotated value and skips exactly the rest of the handler (A64-CFR-BITS).')

EXPLANATION += ' LW-POS-EXEC, A64-RT-CALLDEST.'
CLAIM += (' The calls in the copied part of the template that leave it target exactly code + CodeSize, where generateSuperscalarHash writes the item routine (A64-RT-CALLDEST); mark values by execution (LW-POS-EXEC).')


CLAIM += (' Every instruction word the A64, RV64 and vector-RV64 program generators build from the read-register members of the program configuration is, evaluated and decoded, an XOR of the registers of (readReg0, readReg1) - 64-bit - or of (readReg2, readReg3), and each back-end builds both (JIT-READREG; specification 4.6.2 steps 1 and 5).')
EXPLANATION += ' JIT-READREG.'

def run(ctx, R):
    FI = astq.Facts(ctx, 'K0')
    R.saw(config='K2')
    jitcross.rule_typecheck_arch(ctx, R, 'K2', 'a64')
    jit.rule_tab_opc(ctx, R, 'a64', FI)
    jit.rule_lw_sib(ctx, R, 'a64', FI)
    jit.rule_rcp(ctx, R, 'a64')
    jitcross.rule_cbr_a64(ctx, R, FI)
    jitcross.rule_lwpos_a64(ctx, R)
    jitcross.rule_v2sym_a64(ctx, R)
    jitcross.rule_jitmask_a64(ctx, R, FI)
    jitcross.rule_immneg(ctx, R, 'a64')
    jitcross.rule_ssexh(ctx, R, 'a64', FI)
    jitcross.rule_cgsize_a64(ctx, R, FI)
    jitcross.rule_life_wx_arch(ctx, R, 'a64')
    jitcross.rule_emask(ctx, R, 'a64')
    a64sem.rule_immhelp(ctx, R)
    genreset.rule_gen_reset(ctx, R, 'a64')
    a64hsem.rule_hsem(ctx, R)
    a64patch.rule_patchlen(ctx, R)
    a64hsem.rule_ss_hsem(ctx, R)
    jit.rule_lw_value(ctx, R, 'a64')
    a64hsem.rule_mem_hsem(ctx, R)
    a64hsem.rule_cbranch(ctx, R)
    a64hsem.rule_dsoff(ctx, R)
    rtpreserve.rule_a64(ctx, R)
    rtpreserve.rule_a64_rcplit(ctx, R)
    rtpreserve.rule_const(ctx, R, 'a64')
    a64dsread.rule_dsread(ctx, R)
    a64dsread.rule_loopload(ctx, R)
    a64dsread.rule_dsread_light(ctx, R)
    genreset.rule_ctor_init(ctx, R, 'a64')
    rtpreserve.rule_store_order(ctx, R, 'a64')
    a64dsread.rule_dsitem(ctx, R)
    a64fp.rule_fp_hsem(ctx, R)
    cfrcross.rule_a64(ctx, R)
    jitcross.rule_lwexec_a64(ctx, R)
    rtpreserve.rule_a64_calldest(ctx, R)
    readreg.rule_readreg(ctx, R)
