"""C01 All VM configurations compute the same hash."""
import astq
from rules import a64hsem, aes, argon, cgsize, driver, dsinit, jit, jitcross, portable, rv64, rvhsem, spec, sshash, vmcfg, x86hsem, rtpreserve, aeshw, x86loop, a64sem, a64dsread, rvdsread, a64fp, rvfp, cfrcross

LEVEL = 'other'
TECHNIQUE = ('exhaustive flag-to-class dispatch check, frozen-table check of every dataset-address composition site, per-engine v1/v2 gate enumeration, abstract interpretation of the hand-written dataset-read fragments, sibling agreement rules of C04 / C08 / C10 / C12'
         '; symbolic translation validation of the integer register-form handlers: known-bits execution of the emitter for constant instruction fields, decoding of the emitted code, application to a register file of terms over r0..r7, comparison of normal forms with the terms of specification 5.2 (x86-64 via objdump, A64, RV64 scalar and vector)')
CLAIM = ('Decides statically the structural conditions under which all configurations run the same computation: the 16 flag combinations select the class whose template arguments equal the flag bits; the dataset item address '
         'is composed exactly once per engine x mode; every engine gates the same five v1/v2 decision points on its own flag copy (kept in sync); the hand-written x86 dataset-read fragments implement the v1/v2 mp alias (abstract interpretation); '
         'software and hardware AES paths have identical round structure; dataset initialisation writes exactly the requested items whichever initialiser runs; the Argon2 implementations share their addressing skeleton; '
         'the x86 emitter agrees with the interpreter on opcode map, marks, masks and immediates. Equality of the 256-bit results is numeric and not claimed.'
         ' Also: BIND-EXCL; ISUB_R immediate handling (IMM-NEG) in all four JIT back-ends including the RV64 vector generator, whose opcode table and last-writer marking are compared with the interpreter as well; the non-int128 mulh / smulh / rotr / rotl (PORT-INT: canonical form, bit-routing proof, or a concrete counterexample).'
         ' The integer register-form handlers of all four code generators are validated against specification 5.2 by symbolic execution of the code they emit (X86-HSEM, A64-HSEM, RV-HSEM x2); the RVV generator binds the n-th reciprocal literal to the slot it stored it in (RVV-RCPPOOL).'
         ' The marks of the RVV generator are the current instruction (LW-VALUE); the x86 CFROUND bytes are decided bit by bit (X86-CFR-BITS).')
LEVEL_NOTE = 'Trusted: clang AST, assembled object of the x86 runtime; semantics of emitted machine code; numeric equality of engines.'
EXPLANATION = ('VM-DISPATCH, DS-COMPOSE, V2-GATES, DS-ASM-MP, FLAG-PROP, DRV-SEQ/SIB, SPEC-LOOP, AES-SWITCH/AES-ASM, RACE-RANGE, DS-INITSEL, A2-DISPATCH/A2-SKELETON, TAB-OPC/LW-SIB/MEM-JITMASK/IMM-ENC. BIND-EXCL, IMM-NEG x4, TAB-OPC / LW-SIB for the RVV generator, PORT-INT, DS-RANGE-EVAL.'
         ' X86-HSEM, A64-HSEM, RV-HSEM (scalar, vector), RVV-RCPPOOL.'
         ' LW-VALUE (rvv), CFR-SIB / X86-CFR-BITS.'
         ' X86-MEM-HSEM, X86-FP-HSEM.')

CLAIM += (' Hand-written runtime of the vector back-end: the dataset-item routine called by the light-mode dataset read changes no VM register and no table pointer the program still needs (RVV-RT-PRESERVE), and a constant register that the prologue loads from randomx_masks is never reloaded from another entry inside the loop (RVV-RT-CONST); the vector SuperscalarHash emitter and the vector memory handlers are validated on terms (RVV-SS-HSEM, RV-MEM-HSEM on the vector back-end).')
EXPLANATION += ' RVV-RT-PRESERVE, RVV-RT-CONST, RVV-SS-HSEM, RV-MEM-HSEM (rvv).'

TECHNIQUE += '; register-preservation and constant-reload analysis over the disassembly of the hand-written vector runtime'

EXPLANATION += ' X86-LOOPSTORE, A64-/RV-RT-STOREORDER, A64-IMMHELP, A64-/RV-MEM-HSEM, A64-/RV-DSREAD-HSEM, RVV-JIT-VLEN.'

EXPLANATION += ' X86-/A64-/RV-LOOPLOAD.'

EXPLANATION += ' A64-DSITEM-HSEM, A64-DSREAD-LIGHT, RV-DSREAD-LIGHT.'

EXPLANATION += ' RV-DSITEM-HSEM.'

EXPLANATION += ' X86-DSITEM.'

EXPLANATION += ' A64-FP-HSEM.'

EXPLANATION += ' RV-FP-HSEM.'

EXPLANATION += ' A64-CFR-BITS, RV-CFR-BITS.'

EXPLANATION += ' LW-POS-EXEC, RVV-RT-GENINPUT, A64-RT-CALLDEST, VM-INITORDER, X86-ISA-BASE.'


CLAIM += (' The dataset read of a compiled x86-64 program - the bytes the prologue generator emits for readReg2 ^ readReg3 and the hand-written v1 / v2 / light-mode pieces - executed on terms performs specification 4.6.2 steps 5-8: read at the old ma, mx (v1) or ma (v2) XORed with the zero-extended value, halves swapped, prefetch at the new mx, item number and saved registers in light mode (X86-DSREAD-HSEM).')
EXPLANATION += ' X86-DSREAD-HSEM.'

def run(ctx, R):
    F = astq.Facts(ctx, 'K0')
    R.saw(config='K0')
    vmcfg.rule_dispatch(ctx, R, F)
    vmcfg.rule_compose(ctx, R, F)
    vmcfg.rule_v2gates(ctx, R, F)
    vmcfg.rule_asm_mp(ctx, R)
    driver.rule_flag_prop(ctx, R, F)
    driver.rule_seq(ctx, R, F)
    spec.rule_loop(ctx, R, F)
    aes.rule_patterns(ctx, R, F)
    aes.rule_asm(ctx, R, F)
    dsinit.rule_range(ctx, R, F)
    dsinit.rule_initsel(ctx, R, F)
    argon.rule_dispatch(ctx, R, F)
    argon.rule_skeleton(ctx, R, F)
    jit.rule_tab_opc(ctx, R, 'x86', F)
    jit.rule_lw_sib(ctx, R, 'x86', F)
    jit.rule_jitmask_x86(ctx, R)
    sshash.rule_immenc(ctx, R, F)
    # every JIT back-end the library can select (x86, A64, RV64 scalar, RV64 vector) agrees with the interpreter on the immediate of ISUB_R and on the last-writer table
    for _arch in ('a64', 'rv64', 'rvv'):
        jitcross.rule_immneg(ctx, R, _arch)
    jit.rule_tab_opc(ctx, R, 'rvv', F)
    jit.rule_lw_sib(ctx, R, 'rvv', F)
    rv64.rule_rvv_rcp(ctx, R, F)
    a64hsem.rule_hsem(ctx, R)
    rvhsem.rule_hsem(ctx, R)
    rvhsem.rule_hsem(ctx, R, 'rvv')
    portable.rule_int(ctx, R, astq.Facts(ctx, 'K1'))
    driver.rule_bind_excl(ctx, R)
    x86hsem.rule_hsem(ctx, R)
    jit.rule_lw_value(ctx, R, 'rvv')
    jit.rule_cfr_x86(ctx, R, F)    # CFROUND: the x86 JIT and the interpreter apply the same rule (rotation, v2 test, control word)
    x86hsem.rule_mem_hsem(ctx, R)
    x86hsem.rule_fp_hsem(ctx, R)
    rvhsem.rule_mem_hsem(ctx, R, 'rvv')
    rvhsem.rule_rvv_ss_hsem(ctx, R)
    rtpreserve.rule_rv(ctx, R, 'rvv')
    rtpreserve.rule_const(ctx, R, 'rvv')
    aeshw.rule_rvv_jit_vlen(ctx, R)
    x86loop.rule_loopstore(ctx, R)
    x86loop.rule_loopload(ctx, R)
    x86loop.rule_dsread(ctx, R)
    rtpreserve.rule_store_order(ctx, R, 'a64')
    rtpreserve.rule_store_order(ctx, R, 'rv64')
    a64sem.rule_immhelp(ctx, R)
    a64hsem.rule_mem_hsem(ctx, R)
    rvhsem.rule_mem_hsem(ctx, R)
    a64dsread.rule_dsread(ctx, R)
    a64dsread.rule_loopload(ctx, R)
    a64dsread.rule_dsread_light(ctx, R)
    rvdsread.rule_dsread(ctx, R)
    rvdsread.rule_loopload(ctx, R)
    rvdsread.rule_dsread_light(ctx, R)
    a64dsread.rule_dsitem(ctx, R)
    rvdsread.rule_dsitem(ctx, R)
    x86loop.rule_dsitem(ctx, R)
    a64fp.rule_fp_hsem(ctx, R)
    rvfp.rule_fp_hsem(ctx, R)
    cfrcross.rule_a64(ctx, R)
    cfrcross.rule_rv(ctx, R)
    jitcross.rule_lwexec_a64(ctx, R)
    rtpreserve.rule_rvv_geninput(ctx, R)
    rtpreserve.rule_a64_calldest(ctx, R)
    vmcfg.rule_initorder(ctx, R, F)
    x86loop.rule_isa_base(ctx, R)
