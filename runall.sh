#!/bin/sh
# runs every claimed check (quick tier) and prints one line each
cd "$(dirname "$0")"
for p in $(python3 -c "import json;print(' '.join(c['property_id'] for c in json.load(open('MANIFEST.json'))['checks']))"); do
  ./check $p --tier ${1:-quick} | tail -1
done
