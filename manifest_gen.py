#!/usr/bin/env python3
"""Regenerates MANIFEST.json from the rule modules that exist (so a property is claimed only if
its check is implemented)."""
import importlib
import json
import os
import sys

HERE = os.path.dirname(os.path.abspath(__file__))
sys.path.insert(0, os.path.join(HERE, 'lib'))
sys.path.insert(0, HERE)

props = [json.loads(l) for l in open(os.path.join(HERE, 'properties.jsonl'))]
checks = []
na = []
for p in props:
    pid = p['id']
    try:
        mod = importlib.import_module('rules.' + pid)
    except ImportError:
        mod = None
    if mod is None or getattr(mod, 'NOT_APPLICABLE', None):
        na.append(dict(property_id=pid, reason=getattr(mod, 'NOT_APPLICABLE', None) or
                       'no static rule implemented for this property yet (planned rules: DESIGN.md section 4)'))
        continue
    checks.append(dict(
        property_id=pid,
        quick_cmd='./check %s --tier quick' % pid,
        thorough_cmd='./check %s --tier thorough' % pid,
        evidence_file='evidence/%s.json' % pid,
        replay_cmd_template='./check %s --replay {path}' % pid,
        engine='rxast+rxir+objfacts+specfacts',
        level_claimed=dict(category=getattr(mod, 'LEVEL', 'other'), text=mod.CLAIM, design_ref='DESIGN.md section 4, ' + pid),
        level_note=mod.LEVEL_NOTE,
        technique=getattr(mod, 'TECHNIQUE', 'static analysis'),
    ))
m = dict(
    version=1,
    setup_cmd='make -C tools',
    hooks=dict(
        guard='RANDOMX_VERIF',
        enable='no hooks: the checks parse, lower and assemble /repo sources with the flags of its compilation database and never execute them; nothing in /repo is guarded by RANDOMX_VERIF',
        baseline_off_cmd='d=$(mktemp -d) && cmake -S /repo -B $d -G Ninja >/dev/null && cmake --build $d >/dev/null 2>&1 && (cd $d && ./randomx-tests); rc=$?; rm -rf $d; exit $rc',
        source_commits=[],
        add_only=True,
    ),
    engines=[
        dict(name='rxast', path='tools/rxast.cc', kind_free_text='libTooling extractor: resolved statement trees of every function and template instantiation, globals, class layouts, enums, macros (JSON)',
             serves_properties=[c['property_id'] for c in checks]),
        dict(name='rxir', path='tools/rxir.cc', kind_free_text='LLVM-IR extractor over the llvm-linked library (-O0 + sroa/instsimplify/simplifycfg): instructions, operands, call sites, vtables, globals (JSON)',
             serves_properties=[c['property_id'] for c in checks]),
        dict(name='objfacts', path='lib/objfacts.py', kind_free_text='assembles jit_compiler_*_static.S and reads symbol offsets, disassembly and bytes',
             serves_properties=[c['property_id'] for c in checks]),
        dict(name='specfacts', path='lib/specfacts.py', kind_free_text='parses the tables, key blocks and diagrams of doc/specs.md', serves_properties=[c['property_id'] for c in checks]),
        dict(name='rules', path='rules/', kind_free_text='Python rule library: structured CFG + dominators, known-bits and interval domains, max-plus code-size analysis, decoder path enumeration, sibling comparison, call-graph reachability, pointer-derivation effects',
             serves_properties=[c['property_id'] for c in checks]),
    ],
    checks=checks,
    not_applicable=na,
    notes='Technique family: static analysis only. exit 2 (ANALYSIS-BROKEN) is used when an anchor vanished or a rule would pass vacuously. See DESIGN.md.',
)
json.dump(m, open(os.path.join(HERE, 'MANIFEST.json'), 'w'), indent=1)
print('claimed:', [c['property_id'] for c in checks])
print('not applicable:', [n['property_id'] for n in na])
