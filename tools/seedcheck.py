#!/usr/bin/env python3
"""Helper for the seeded-change experiment (DESIGN.md, section "Seeded changes").

  seedcheck.py verify <seed dir> <worktree>   apply patch.diff in the scratch worktree, build, run the 105 tests, build+run the
                                              demonstration (must fail), undo the patch, rebuild, run it again (must pass)
  seedcheck.py detect <seed dir> [props...]   apply patch.diff to a scratch copy of /repo and run the registered checks on it

Nothing is ever applied to /repo itself.
"""
import json
import os
import re
import shutil
import subprocess
import sys
import tempfile

VERIF = os.path.dirname(os.path.dirname(os.path.abspath(__file__)))


def sh(cmd, cwd=None, timeout=1800, env=None):
    p = subprocess.run(cmd, shell=True, cwd=cwd, env=env, stdout=subprocess.PIPE, stderr=subprocess.STDOUT, text=True, timeout=timeout)
    return p.returncode, p.stdout


def demo_cmd(seed, wt):
    for name in ('demo.sh', 'demo.cpp', 'demo.c'):
        p = os.path.join(seed, name)
        if os.path.exists(p):
            if name == 'demo.sh':
                with open(p) as fh:
                    first = fh.readline()
                return '%s %s' % ('bash' if 'bash' in first else 'sh', p)
            with open(p) as fh:
                head = fh.read().split('\n')[:60]
            for ln in head:
                m = re.search(r'((?:g\+\+|gcc|c\+\+|cc|clang\+\+)\s+.*)$', ln)
                if m:
                    cmd = m.group(1).strip().rstrip('*/').strip()
                    cmd = cmd.replace('<wt>', wt)
                    if '&&' not in cmd:
                        m2 = re.search(r'-o\s+(\S+)', cmd)
                        if m2:
                            out = m2.group(1)
                            cmd += ' && ' + (out if out.startswith('/') else './' + out)
                        else:
                            cmd += ' && ./a.out'
                    return cmd
    return None


def verify(seed, wt):
    seed = os.path.abspath(seed)
    res = {}
    rc, out = sh('git -C %s status --porcelain' % wt)
    if out.strip():
        sh('git -C %s checkout -- .' % wt)
    rc, out = sh('git -C %s apply %s/patch.diff' % (wt, seed))
    res['applies'] = rc == 0
    if rc:
        print(out)
        return res
    try:
        rc, out = sh('cmake -S %s -B %s/_b -G Ninja >/dev/null && cmake --build %s/_b 2>&1 | tail -3' % (wt, wt, wt))
        res['builds'] = rc == 0 and os.path.exists('%s/_b/librandomx.a' % wt)
        rc, out = sh('./randomx-tests', cwd='%s/_b' % wt)
        res['tests_passed'] = out.count('PASSED')
        res['tests_ok'] = rc == 0 and 'All tests PASSED' in out
        cmd = demo_cmd(seed, wt)
        res['demo_cmd'] = cmd
        if cmd:
            rc, out = sh(cmd, cwd=seed, env=dict(os.environ, WT=wt))
            res['demo_with_patch_rc'] = rc
            res['demo_with_patch_tail'] = out[-600:]
    finally:
        sh('git -C %s checkout -- .' % wt)
    rc, out = sh('cmake --build %s/_b 2>&1 | tail -1' % wt)
    if cmd:
        rc, out = sh(cmd, cwd=seed, env=dict(os.environ, WT=wt))
        res['demo_without_patch_rc'] = rc
        res['demo_without_patch_tail'] = out[-300:]
    shutil.rmtree('%s/_b' % wt, ignore_errors=True)
    for f in os.listdir(seed):
        if f in ('demo', 'a.out') or f.endswith('.o'):
            try:
                os.unlink(os.path.join(seed, f))
            except OSError:
                pass
    return res


def detect(seed, props=None, repo='/repo'):
    seed = os.path.abspath(seed)
    d = tempfile.mkdtemp(prefix='rxseed_')
    out = {}
    try:
        subprocess.check_call(['rsync', '-a', '--exclude', '_build', '--exclude', '.git', '--exclude', '_b', repo.rstrip('/') + '/', d + '/'])
        rc, o = sh('patch -p1 -s < %s/patch.diff' % seed, cwd=d)
        if rc:
            return {'error': 'patch does not apply: ' + o[-300:]}
        if not props:
            with open(os.path.join(VERIF, 'MANIFEST.json')) as fh:
                props = [c['property_id'] for c in json.load(fh)['checks']]
        env = dict(os.environ, RXVERIF_CACHE=d + '.cache', RXVERIF_EVIDENCE_DIR=d + '.evidence')
        for p in props:
            pr = subprocess.run([os.path.join(VERIF, 'check'), p, '--repo', d], stdout=subprocess.PIPE, stderr=subprocess.STDOUT, text=True, env=env)
            rules = sorted(set(re.findall(r'\[([A-Z0-9-]+)\]', pr.stdout)))
            first = [ln for ln in pr.stdout.split('\n') if re.search(r'\[[A-Z0-9-]+\]', ln)][:2]
            out[p] = dict(rc=pr.returncode, rules=rules, first=[x[:260] for x in first], broken=[ln[:300] for ln in pr.stdout.split('\n') if ln.startswith('ANALYSIS-BROKEN')][:2])
    finally:
        shutil.rmtree(d, ignore_errors=True)
        shutil.rmtree(d + '.cache', ignore_errors=True)
        shutil.rmtree(d + '.evidence', ignore_errors=True)
    return out


if __name__ == '__main__':
    if sys.argv[1] == 'verify':
        print(json.dumps(verify(sys.argv[2], sys.argv[3]), indent=1))
    elif sys.argv[1] == 'detect':
        r = detect(sys.argv[2], sys.argv[3:])
        for p, v in r.items():
            if isinstance(v, dict):
                print(p, 'rc=%s' % v['rc'], v['rules'], v['broken'] or '')
                for ln in v['first']:
                    print('    ', ln)
            else:
                print(p, v)
