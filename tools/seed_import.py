#!/usr/bin/env python3
"""Copies verified seeded changes from /tmp/seeds into /verif/seeded/<id>/ and (re)computes which registered
checks detect each of them.  usage: seed_import.py import | detect [id-substring]"""
import json
import os
import shutil
import sys

sys.path.insert(0, os.path.dirname(os.path.abspath(__file__)))
import seedcheck

VERIF = os.path.dirname(os.path.dirname(os.path.abspath(__file__)))
SEEDED = os.path.join(VERIF, 'seeded')


ROOT = os.environ.get('SEEDS_ROOT', '/tmp/seeds')


def do_import():
    for prop in sorted(os.listdir(ROOT)):
        d = os.path.join(ROOT, prop)
        if not os.path.isdir(d):
            continue
        for sid in sorted(os.listdir(d)):
            sd = os.path.join(d, sid)
            vf = os.path.join(ROOT, 'verify_%s.json' % sid)
            if not os.path.isdir(sd) or not os.path.exists(os.path.join(sd, 'patch.diff')) or not os.path.exists(vf):
                continue
            try:
                ver = json.load(open(vf))
            except ValueError:
                print('verification still running / unreadable:', sid)
                continue
            ok = ver.get('applies') and ver.get('builds') and ver.get('tests_ok') and ver.get('demo_with_patch_rc') not in (0, None) and ver.get('demo_without_patch_rc') == 0
            if not ok:
                print('NOT kept (verification failed):', sid, {k: ver.get(k) for k in ('applies', 'builds', 'tests_ok', 'demo_with_patch_rc', 'demo_without_patch_rc')})
                continue
            dst = os.path.join(SEEDED, sid)
            os.makedirs(dst, exist_ok=True)
            old = {}
            if os.path.exists(os.path.join(dst, 'meta.json')):
                try:
                    old = json.load(open(os.path.join(dst, 'meta.json')))
                except Exception:
                    old = {}
            for f in os.listdir(sd):
                p = os.path.join(sd, f)
                if os.path.isfile(p) and os.path.getsize(p) < 400000 and f not in ('demo', 'a.out', 'PROMPT.txt') and not f.endswith('.o') and not f.endswith('.a') and not (os.access(p, os.X_OK) and not f.endswith('.sh') and not f.endswith('.py')):
                    shutil.copy(p, os.path.join(dst, f))
            meta = {}
            mp = os.path.join(sd, 'meta.json')
            if os.path.exists(mp):
                try:
                    meta = json.load(open(mp))
                except Exception:
                    meta = {'raw_meta': open(mp).read()[:2000]}
            out = dict(property=meta.get('property', prop), breaks=meta.get('summary') or meta.get('breaks'), needs_to_manifest=meta.get('needs') or meta.get('needs_to_manifest'), files=meta.get('files'),
                       author='independent sub-agent given only the property text and a scratch worktree',
                       author_ran=meta.get('ran') or meta.get('author_ran'),
                       confirmed_by_me=dict(worktree='%s (scratch git worktree of /repo HEAD, removed afterwards)' % ('/tmp/wt8_%s' % prop if sid.endswith('_12') or sid.endswith('_13') else ('/tmp/wt6_%s' if prop in ('C01', 'C02', 'C03', 'C08', 'C10', 'C11', 'C13', 'C15', 'C16', 'C17') else '/tmp/wt7_%s') % prop if sid.endswith('_10') or sid.endswith('_11') else '/tmp/wt5_%s' % prop if sid[-1] in '89' else ('/tmp/wt4_%s' if prop in ('C01', 'C04', 'C06', 'C07', 'C08', 'C13', 'C14', 'C15', 'C16', 'C17') else '/tmp/wt3_%s') % prop if sid[-1] in '67' else '/tmp/wt2_%s' % prop if sid[-1] in '45' else '/tmp/wt_%s' % prop),
                                            ran=['git apply patch.diff', 'cmake -G Ninja + cmake --build', './randomx-tests', ver.get('demo_cmd'), 'git checkout -- . ; rebuild ; demo again'],
                                            patch_applies=ver.get('applies'), builds=ver.get('builds'), tests_passed=ver.get('tests_passed', 0) - 1, all_tests_pass=ver.get('tests_ok'),
                                            demo_exit_with_patch=ver.get('demo_with_patch_rc'), demo_exit_without_patch=ver.get('demo_without_patch_rc')),
                       detection=old.get('detection'))
            json.dump(out, open(os.path.join(dst, 'meta.json'), 'w'), indent=1)
            print('kept', sid)


def _detect_one(sid):
    dst = os.path.join(SEEDED, sid)
    res = seedcheck.detect(dst)
    meta = json.load(open(os.path.join(dst, 'meta.json')))
    prop = meta['property']
    det = {}
    for p, v in res.items():
        if isinstance(v, dict) and v['rc'] == 1:
            det[p] = v['rules']
    broken = {p: v['broken'] for p, v in res.items() if isinstance(v, dict) and v['rc'] == 2}
    meta['detection'] = dict(detected=bool(det), detected_by_own_property_check=prop in det, checks_reporting_violation=det, checks_analysis_broken=broken)
    json.dump(meta, open(os.path.join(dst, 'meta.json'), 'w'), indent=1)
    return '%-8s own-check:%-5s %s %s' % (sid, prop in det, det, ('BROKEN %s' % list(broken)) if broken else '')


def do_detect(sub='', jobs=1):
    sids = [sid for sid in sorted(os.listdir(SEEDED)) if sub in sid and os.path.exists(os.path.join(SEEDED, sid, 'patch.diff'))]
    if jobs > 1:
        from concurrent.futures import ThreadPoolExecutor
        with ThreadPoolExecutor(max_workers=jobs) as ex:
            for line in ex.map(_detect_one, sids):
                print(line, flush=True)
    else:
        for sid in sids:
            print(_detect_one(sid), flush=True)


if __name__ == '__main__':
    if sys.argv[1] == 'import':
        do_import()
    else:
        args = [a for a in sys.argv[2:] if not a.startswith('-j')]
        jobs = [int(a[2:]) for a in sys.argv[2:] if a.startswith('-j')]
        do_detect(args[0] if args else '', jobs[0] if jobs else 1)
