#!/usr/bin/env python3
"""Runs tools/benigncheck.py on every patch under /verif/benign in parallel and rewrites benign/RESULTS.json.  usage: benign_all.py [-jN]"""
import json
import os
import subprocess
import sys
from concurrent.futures import ThreadPoolExecutor

VERIF = os.path.dirname(os.path.dirname(os.path.abspath(__file__)))
B = os.path.join(VERIF, 'benign')


def one(name):
    r = subprocess.run([sys.executable, os.path.join(VERIF, 'tools', 'benigncheck.py'), os.path.join(B, name)], stdout=subprocess.PIPE, stderr=subprocess.STDOUT, text=True)
    return name, r.returncode, r.stdout


def main():
    jobs = [int(a[2:]) for a in sys.argv[1:] if a.startswith('-j')]
    names = sorted(n for n in os.listdir(B) if os.path.exists(os.path.join(B, n, 'patch.diff')))
    old = {}
    rp = os.path.join(B, 'RESULTS.json')
    if os.path.exists(rp):
        old = json.load(open(rp))
    res = {}
    bad = 0
    with ThreadPoolExecutor(max_workers=jobs[0] if jobs else 4) as ex:
        for name, rc, out in ex.map(one, names):
            print(out.rstrip(), flush=True)
            e = {'checks': 20, 'result': 'silent' if rc == 0 else ('false alarm / analysis gave up' if rc == 1 else 'patch does not apply')}
            if rc:
                bad += 1
                e['output'] = out[-600:]
            if name in old and 'note' in old[name]:
                e['note'] = old[name]['note']
            res[name] = e
    json.dump(res, open(rp, 'w'), indent=1, sort_keys=True)
    print('%d patches, %d not silent' % (len(names), bad))
    return 1 if bad else 0


if __name__ == '__main__':
    sys.exit(main())
