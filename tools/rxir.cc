// rxir: generic LLVM-IR fact extractor (engine E2 of /verif/DESIGN.md).
//
// Reads one linked, lightly simplified .ll/.bc module and writes it as JSON in a form that the
// Python rules can walk without an LLVM binding: functions, basic blocks, instructions with
// operand references, direct callees, debug locations, globals (constant / thread-local /
// linkage / vtable slots) and named struct types. Knows nothing about RandomX.
//
// Usage: rxir module.ll out.json

#include "llvm/ADT/SmallString.h"
#include "llvm/Demangle/Demangle.h"
#include "llvm/IR/Constants.h"
#include "llvm/IR/DebugInfoMetadata.h"
#include "llvm/IR/InlineAsm.h"
#include "llvm/IR/InstIterator.h"
#include "llvm/IR/Instructions.h"
#include "llvm/IR/IntrinsicInst.h"
#include "llvm/IR/LLVMContext.h"
#include "llvm/IR/Module.h"
#include "llvm/IR/Operator.h"
#include "llvm/IRReader/IRReader.h"
#include "llvm/Support/SourceMgr.h"
#include "llvm/Support/raw_ostream.h"

#include <map>
#include <string>

using namespace llvm;

static std::string esc(StringRef s) {
  std::string o;
  for (unsigned char c : s) {
    switch (c) {
    case '"': o += "\\\""; break;
    case '\\': o += "\\\\"; break;
    case '\n': o += "\\n"; break;
    case '\t': o += "\\t"; break;
    default:
      if (c < 0x20 || c >= 0x7f) { char b[8]; snprintf(b, sizeof b, "\\u%04x", c); o += b; }
      else o += (char)c;
    }
  }
  return o;
}

static std::string tyStr(Type *t) {
  std::string s;
  raw_string_ostream os(s);
  t->print(os, false, true);
  os.flush();
  return s;
}

struct Ctx {
  raw_ostream &os;
  std::map<const Value *, unsigned> ids;
};

static void operand(Ctx &c, const Value *v, int depth = 0);

static void constExpr(Ctx &c, const ConstantExpr *ce, int depth) {
  c.os << "{\"ce\":\"" << ce->getOpcodeName() << "\",\"ty\":\"" << esc(tyStr(ce->getType())) << "\"";
  if (auto *gep = dyn_cast<GEPOperator>(ce)) c.os << ",\"sty\":\"" << esc(tyStr(gep->getSourceElementType())) << "\"";
  c.os << ",\"ops\":[";
  for (unsigned i = 0; i < ce->getNumOperands(); ++i) {
    if (i) c.os << ',';
    operand(c, ce->getOperand(i), depth + 1);
  }
  c.os << "]}";
}

static void operand(Ctx &c, const Value *v, int depth) {
  if (auto *a = dyn_cast<Argument>(v)) {
    c.os << "{\"a\":" << a->getArgNo() << "}";
  } else if (auto *i = dyn_cast<Instruction>(v)) {
    c.os << "{\"v\":" << c.ids[i] << "}";
  } else if (auto *f = dyn_cast<Function>(v)) {
    c.os << "{\"f\":\"" << esc(f->getName()) << "\"}";
  } else if (auto *g = dyn_cast<GlobalVariable>(v)) {
    c.os << "{\"g\":\"" << esc(g->getName()) << "\"}";
  } else if (auto *ga = dyn_cast<GlobalAlias>(v)) {
    if (auto *af = dyn_cast<Function>(ga->getAliaseeObject()))
      c.os << "{\"f\":\"" << esc(af->getName()) << "\"}";
    else
      c.os << "{\"g\":\"" << esc(ga->getName()) << "\"}";
  } else if (auto *ci = dyn_cast<ConstantInt>(v)) {
    SmallString<40> s;
    ci->getValue().toString(s, 10, ci->getBitWidth() > 1 ? true : false);
    c.os << "{\"c\":" << s << ",\"bits\":" << ci->getBitWidth() << "}";
  } else if (isa<ConstantPointerNull>(v)) {
    c.os << "{\"null\":1}";
  } else if (auto *ce = dyn_cast<ConstantExpr>(v)) {
    if (depth < 6) constExpr(c, ce, depth); else c.os << "{\"u\":\"deep\"}";
  } else if (isa<UndefValue>(v)) {
    c.os << "{\"u\":\"undef\"}";
  } else if (isa<BasicBlock>(v)) {
    c.os << "{\"bb\":" << c.ids[v] << "}";
  } else if (isa<MetadataAsValue>(v)) {
    c.os << "{\"u\":\"md\"}";
  } else if (isa<InlineAsm>(v)) {
    c.os << "{\"asm\":\"" << esc(cast<InlineAsm>(v)->getAsmString()) << "\"}";
  } else if (isa<Constant>(v)) {
    c.os << "{\"k\":\"" << esc(tyStr(v->getType())) << "\"}";
  } else {
    c.os << "{\"u\":\"other\"}";
  }
}

static void collectFuncs(const Constant *c, std::vector<std::string> &out, int depth = 0) {
  if (depth > 6) return;
  if (auto *f = dyn_cast<Function>(c)) { out.push_back(f->getName().str()); return; }
  if (isa<GlobalVariable>(c)) { out.push_back(std::string("@") + c->getName().str()); return; }
  if (isa<ConstantPointerNull>(c)) { out.push_back(""); return; }
  if (isa<ConstantInt>(c)) { out.push_back(""); return; }
  for (unsigned i = 0; i < c->getNumOperands(); ++i)
    if (auto *oc = dyn_cast<Constant>(c->getOperand(i))) collectFuncs(oc, out, depth + 1);
}

int main(int argc, char **argv) {
  if (argc < 3) { errs() << "usage: rxir in.ll out.json\n"; return 2; }
  LLVMContext ctx;
  SMDiagnostic err;
  std::unique_ptr<Module> M = parseIRFile(argv[1], err, ctx);
  if (!M) { err.print("rxir", errs()); return 2; }
  std::error_code ec;
  raw_fd_ostream os(argv[2], ec);
  if (ec) { errs() << "cannot open output\n"; return 2; }
  Ctx c{os, {}};

  os << "{\"structs\":{";
  bool first = true;
  for (StructType *st : M->getIdentifiedStructTypes()) {
    if (!first) os << ',';
    first = false;
    os << "\"" << esc(st->getName()) << "\":[";
    if (!st->isOpaque())
      for (unsigned i = 0; i < st->getNumElements(); ++i) {
        if (i) os << ',';
        os << "\"" << esc(tyStr(st->getElementType(i))) << "\"";
      }
    os << "]";
  }
  os << "},\n\"globals\":[";
  first = true;
  for (GlobalVariable &g : M->globals()) {
    if (!first) os << ",\n";
    first = false;
    os << "{\"name\":\"" << esc(g.getName()) << "\",\"dem\":\"" << esc(demangle(g.getName().str())) << "\"";
    os << ",\"constant\":" << (g.isConstant() ? "true" : "false");
    os << ",\"tls\":" << (g.isThreadLocal() ? "true" : "false");
    os << ",\"decl\":" << (g.isDeclaration() ? "true" : "false");
    os << ",\"internal\":" << (g.hasLocalLinkage() ? "true" : "false");
    os << ",\"ty\":\"" << esc(tyStr(g.getValueType())) << "\"";
    SmallVector<DIGlobalVariableExpression *, 1> dbg;
    g.getDebugInfo(dbg);
    if (!dbg.empty()) {
      auto *dv = dbg[0]->getVariable();
      os << ",\"file\":\"" << esc(dv->getFilename()) << "\",\"line\":" << dv->getLine();
    }
    if (g.hasInitializer()) {
      const Constant *init = g.getInitializer();
      os << ",\"zeroinit\":" << (init->isNullValue() ? "true" : "false");
      if (g.getName().startswith("_ZTV") || tyStr(g.getValueType()).find("(") != std::string::npos) {
        std::vector<std::string> fs;
        collectFuncs(init, fs);
        os << ",\"slots\":[";
        for (unsigned i = 0; i < fs.size(); ++i) { if (i) os << ','; os << "\"" << esc(fs[i]) << "\""; }
        os << "]";
      }
    }
    os << "}";
  }
  os << "],\n\"functions\":[";
  first = true;
  for (Function &F : *M) {
    if (!first) os << ",\n";
    first = false;
    os << "{\"name\":\"" << esc(F.getName()) << "\",\"dem\":\"" << esc(demangle(F.getName().str())) << "\"";
    os << ",\"defined\":" << (F.isDeclaration() ? "false" : "true");
    os << ",\"internal\":" << (F.hasLocalLinkage() ? "true" : "false");
    os << ",\"ty\":\"" << esc(tyStr(F.getFunctionType())) << "\"";
    if (F.isIntrinsic()) os << ",\"intrinsic\":true";
    if (DISubprogram *sp = F.getSubprogram()) {
      os << ",\"file\":\"" << esc(sp->getFilename()) << "\",\"line\":" << sp->getLine();
    }
    os << ",\"args\":[";
    for (Argument &a : F.args()) {
      if (a.getArgNo()) os << ',';
      os << "{\"ty\":\"" << esc(tyStr(a.getType())) << "\"";
      if (a.hasStructRetAttr()) os << ",\"sret\":true";
      if (a.onlyReadsMemory()) os << ",\"readonly\":true";
      os << "}";
    }
    os << "]";
    if (F.isDeclaration()) { os << "}"; continue; }
    c.ids.clear();
    unsigned n = 0;
    for (BasicBlock &bb : F) {
      c.ids[&bb] = n++;
    }
    unsigned k = 0;
    for (BasicBlock &bb : F)
      for (Instruction &I : bb) c.ids[&I] = k++;
    os << ",\"blocks\":[";
    bool fb = true;
    for (BasicBlock &bb : F) {
      if (!fb) os << ',';
      fb = false;
      os << "{\"id\":" << c.ids[&bb] << ",\"succ\":[";
      bool fs = true;
      for (BasicBlock *s : successors(&bb)) { if (!fs) os << ','; fs = false; os << c.ids[s]; }
      os << "],\"insts\":[";
      bool fi = true;
      for (Instruction &I : bb) {
        if (isa<DbgInfoIntrinsic>(I)) continue;
        if (!fi) os << ',';
        fi = false;
        os << "{\"i\":" << c.ids[&I] << ",\"op\":\"" << I.getOpcodeName() << "\",\"ty\":\"" << esc(tyStr(I.getType())) << "\"";
        if (const DebugLoc &dl = I.getDebugLoc()) {
          if (auto *sc = dyn_cast_or_null<DIScope>(dl.getScope()))
            os << ",\"loc\":\"" << esc(sc->getFilename()) << ":" << dl.getLine() << "\"";
          if (DILocation *ia = dl.getInlinedAt()) os << ",\"inl\":" << ia->getLine();
        }
        if (auto *cb = dyn_cast<CallBase>(&I)) {
          if (Function *cf = cb->getCalledFunction()) {
            os << ",\"callee\":\"" << esc(cf->getName()) << "\"";
          } else {
            const Value *cv = cb->getCalledOperand()->stripPointerCastsAndAliases();
            if (auto *cf2 = dyn_cast<Function>(cv)) os << ",\"callee\":\"" << esc(cf2->getName()) << "\"";
            else { os << ",\"icallee\":"; operand(c, cb->getCalledOperand()); }
          }
          os << ",\"fty\":\"" << esc(tyStr(cb->getFunctionType())) << "\"";
          os << ",\"ops\":[";
          for (unsigned i = 0; i < cb->arg_size(); ++i) { if (i) os << ','; operand(c, cb->getArgOperand(i)); }
          os << "]";
          if (auto *inv = dyn_cast<InvokeInst>(cb)) {
            os << ",\"normal\":" << c.ids[inv->getNormalDest()] << ",\"unwind\":" << c.ids[inv->getUnwindDest()];
          }
        } else {
          if (auto *gep = dyn_cast<GetElementPtrInst>(&I)) os << ",\"sty\":\"" << esc(tyStr(gep->getSourceElementType())) << "\"";
          if (auto *al = dyn_cast<AllocaInst>(&I)) os << ",\"aty\":\"" << esc(tyStr(al->getAllocatedType())) << "\"";
          if (auto *cmp = dyn_cast<CmpInst>(&I)) os << ",\"pred\":\"" << CmpInst::getPredicateName(cmp->getPredicate()) << "\"";
          if (auto *ld = dyn_cast<LoadInst>(&I)) { if (ld->isVolatile()) os << ",\"volatile\":true"; if (ld->isAtomic()) os << ",\"atomic\":true"; }
          if (auto *st = dyn_cast<StoreInst>(&I)) { if (st->isVolatile()) os << ",\"volatile\":true"; if (st->isAtomic()) os << ",\"atomic\":true"; }
          os << ",\"ops\":[";
          for (unsigned i = 0; i < I.getNumOperands(); ++i) { if (i) os << ','; operand(c, I.getOperand(i)); }
          os << "]";
          if (auto *phi = dyn_cast<PHINode>(&I)) {
            os << ",\"inbb\":[";
            for (unsigned i = 0; i < phi->getNumIncomingValues(); ++i) { if (i) os << ','; os << c.ids[phi->getIncomingBlock(i)]; }
            os << "]";
          }
        }
        os << "}";
      }
      os << "]}";
    }
    os << "]}";
  }
  os << "]}\n";
  return 0;
}
