#!/usr/bin/env python3
"""Regenerates the two machine-made tables of DESIGN.md (section 9.4 seeded changes, 9.5 rule inventory) from seeded/*/meta.json and evidence/*.json."""
import glob
import json
import os
import re

V = os.path.dirname(os.path.dirname(os.path.abspath(__file__)))


def seed_table():
    rows = ['| seed | property | what it breaks (file) | needs to manifest | reported by (rule ids) |', '|------|----------|------------------------|-------------------|------------------------|']
    n = det = own = 0
    for d in sorted(glob.glob(os.path.join(V, 'seeded', '*'))):
        mp = os.path.join(d, 'meta.json')
        if not os.path.exists(mp):
            continue
        m = json.load(open(mp))
        sid = os.path.basename(d)
        files = m.get('files') or []
        if isinstance(files, str):
            files = [files]
        what = re.sub(r'\s+', ' ', (m.get('breaks') or ''))[:150].replace('|', '/')
        needs = re.sub(r'\s+', ' ', (m.get('needs_to_manifest') or ''))[:110].replace('|', '/')
        dt = m.get('detection') or {}
        checks = dt.get('checks_reporting_violation') or {}
        rep = '; '.join('%s: %s' % (p, ', '.join(r for r in rs if re.match(r'^[A-Z0-9]+-[A-Z0-9-]+$', r))) for p, rs in sorted(checks.items())) or '**not detected**'
        n += 1
        det += 1 if checks else 0
        own += 1 if dt.get('detected_by_own_property_check') else 0
        rows.append('| %s | %s | %s… (%s) | %s… | %s |' % (sid, m.get('property'), what, ', '.join(os.path.basename(f) for f in files[:2]), needs, rep))
    rows.append('')
    rows.append('%d seeded changes kept; %d reported by at least one check, %d by the check of the property they were written against.' % (n, det, own))
    return '\n'.join(rows)


def rule_table():
    rows = ['| property | obligations | rules (instances) |', '|----------|-------------|-------------------|']
    for f in sorted(glob.glob(os.path.join(V, 'evidence', 'C*.json'))):
        e = json.load(open(f))
        rules = e['coverage'].get('rules', {})
        rows.append('| %s | %d | %s |' % (e['property_id'], e['coverage'].get('obligations', 0), ', '.join('%s (%d)' % (k, v['instances']) for k, v in rules.items())))
    return '\n'.join(rows)


def benign_table():
    rp = os.path.join(V, 'benign', 'RESULTS.json')
    if not os.path.exists(rp):
        return '(no recorded run)'
    res = json.load(open(rp))
    rows = ['| patch | kind of refactoring (agent\'s words) | result on the 20 checks |', '|-------|--------------------------------------|-------------------------|']
    for name in sorted(res):
        mp = os.path.join(V, 'benign', name, 'meta.json')
        kind = ''
        if os.path.exists(mp):
            try:
                kind = re.sub(r'\s+', ' ', str(json.load(open(mp)).get('kind', '')))[:70].replace('|', '/')
            except Exception:
                kind = ''
        r = res[name]
        rows.append('| %s | %s | %s |' % (name, kind, 'silent' if r['result'] == 'silent' else ', '.join('%s exit %d' % kv for kv in sorted(r.get('reports', {}).items()))))
    rows.append('')
    rows.append('%d refactorings, %d silent on every check.' % (len(res), sum(1 for v in res.values() if v['result'] == 'silent')))
    return '\n'.join(rows)


def main():
    p = os.path.join(V, 'DESIGN.md')
    s = open(p).read()
    for tag, fn in (('SEED-TABLE', seed_table), ('RULE-TABLE', rule_table), ('BENIGN-TABLE', benign_table)):
        a = s.index('<!-- %s-BEGIN -->' % tag) + len('<!-- %s-BEGIN -->' % tag)
        b = s.index('<!-- %s-END -->' % tag)
        s = s[:a] + '\n' + fn() + '\n' + s[b:]
    open(p, 'w').write(s)


if __name__ == '__main__':
    main()
