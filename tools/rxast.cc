// rxast: generic resolved-AST fact extractor (engine E1 of /verif/DESIGN.md).
//
// For one translation unit (flags from the compilation database or after `--`) it writes
// one JSON object with:
//   functions : every function / method / template *instantiation* with a body whose
//               definition is spelled in a file under --root, with its resolved statement tree
//               (callees as qualified names incl. template arguments, member accesses,
//               enum constants, every integer sub-expression clang can constant-fold);
//   globals   : namespace-scope and static-member variables with their initialisers;
//   records   : class definitions (fields, default member initialisers, bases, methods,
//               virtual / overrides, sizeof);
//   enums     : enumerators with values;
//   macros    : object-like macros defined in files under --root (token text).
// The tool knows nothing about RandomX; rules live in /verif/rules/*.py.
//
// Usage: rxast --root=/repo --out=facts.json file.cpp -- <compile flags>

#include "clang/AST/ASTConsumer.h"
#include "clang/AST/ASTContext.h"
#include "clang/AST/DeclCXX.h"
#include "clang/AST/DeclTemplate.h"
#include "clang/AST/Expr.h"
#include "clang/AST/ExprCXX.h"
#include "clang/AST/RecordLayout.h"
#include "clang/AST/RecursiveASTVisitor.h"
#include "clang/AST/StmtCXX.h"
#include "clang/Basic/TargetInfo.h"
#include "clang/Frontend/CompilerInstance.h"
#include "clang/Frontend/FrontendAction.h"
#include "clang/Lex/PPCallbacks.h"
#include "clang/Lex/Preprocessor.h"
#include "clang/Tooling/CommonOptionsParser.h"
#include "clang/Tooling/Tooling.h"
#include "llvm/Support/CommandLine.h"
#include "llvm/Support/raw_ostream.h"

#include <map>
#include <set>
#include <string>

using namespace clang;

static llvm::cl::OptionCategory Cat("rxast options");
static llvm::cl::opt<std::string> OptRoot("root", llvm::cl::desc("only dump entities spelled under this directory"),
                                          llvm::cl::init("/repo"), llvm::cl::cat(Cat));
static llvm::cl::opt<std::string> OptOut("out", llvm::cl::desc("output JSON file"), llvm::cl::init("-"),
                                         llvm::cl::cat(Cat));

namespace {

std::string jsonEscape(llvm::StringRef s) {
  std::string o;
  o.reserve(s.size() + 2);
  for (unsigned char c : s) {
    switch (c) {
    case '"': o += "\\\""; break;
    case '\\': o += "\\\\"; break;
    case '\n': o += "\\n"; break;
    case '\r': o += "\\r"; break;
    case '\t': o += "\\t"; break;
    default:
      if (c < 0x20 || c >= 0x7f) {
        char buf[8];
        snprintf(buf, sizeof buf, "\\u%04x", c);
        o += buf;
      } else
        o += (char)c;
    }
  }
  return o;
}

// Minimal streaming JSON writer.
class JW {
public:
  explicit JW(llvm::raw_ostream &os) : os(os) {}
  void beginObj() { sep(); os << '{'; first.push_back(true); }
  void endObj() { os << '}'; first.pop_back(); }
  void beginArr() { sep(); os << '['; first.push_back(true); }
  void endArr() { os << ']'; first.pop_back(); }
  void key(llvm::StringRef k) { sep(); os << '"' << k << "\":"; pendingKey = true; }
  void str(llvm::StringRef s) { sep(); os << '"' << jsonEscape(s) << '"'; }
  void raw(llvm::StringRef s) { sep(); os << s; }
  void num(long long v) { sep(); os << v; }
  void boolean(bool b) { sep(); os << (b ? "true" : "false"); }
  void null() { sep(); os << "null"; }
  void kv(llvm::StringRef k, llvm::StringRef v) { key(k); str(v); }
  void kvn(llvm::StringRef k, long long v) { key(k); num(v); }
  void kvb(llvm::StringRef k, bool v) { key(k); boolean(v); }

private:
  void sep() {
    if (pendingKey) { pendingKey = false; return; }
    if (!first.empty()) {
      if (!first.back()) os << ',';
      first.back() = false;
    }
  }
  llvm::raw_ostream &os;
  std::vector<bool> first;
  bool pendingKey = false;
};

struct MacroRec { std::string name, body, file; unsigned line; bool fnlike; };

class Dumper {
public:
  Dumper(ASTContext &ctx, JW &w, const std::string &root) : Ctx(ctx), SM(ctx.getSourceManager()), W(w), Root(root), PP(ctx.getLangOpts()) {
    PP.SuppressTagKeyword = true;
    PP.Bool = true;
    PP.FullyQualifiedName = true;
    PP.PrintCanonicalTypes = true;
  }

  bool inRoot(SourceLocation loc) {
    if (loc.isInvalid()) return false;
    SourceLocation e = SM.getExpansionLoc(loc);
    llvm::StringRef f = SM.getFilename(e);
    if (f.empty()) return false;
    std::string p = realPath(f);
    return llvm::StringRef(p).startswith(Root);
  }

  std::string realPath(llvm::StringRef f) {
    auto it = pathCache.find(f.str());
    if (it != pathCache.end()) return it->second;
    llvm::SmallString<256> out;
    std::string r;
    if (!llvm::sys::fs::real_path(f, out)) r = out.str().str(); else r = f.str();
    pathCache[f.str()] = r;
    return r;
  }

  std::string fileOf(SourceLocation loc) {
    SourceLocation e = SM.getExpansionLoc(loc);
    return realPath(SM.getFilename(e));
  }
  unsigned lineOf(SourceLocation loc) {
    SourceLocation e = SM.getExpansionLoc(loc);
    return SM.getSpellingLineNumber(e);
  }

  std::string typeStr(QualType t) {
    if (t.isNull()) return "";
    return t.getAsString(PP);
  }

  std::string qname(const NamedDecl *d) {
    std::string s;
    llvm::raw_string_ostream os(s);
    d->getNameForDiagnostic(os, PP, true);
    os.flush();
    return s;
  }

  std::string declId(const Decl *d) {
    char buf[32];
    snprintf(buf, sizeof buf, "d%llx", (unsigned long long)(uintptr_t)d->getCanonicalDecl());
    return buf;
  }

  void locKeys(const Stmt *s) {
    SourceLocation l = s->getBeginLoc();
    if (l.isValid()) {
      W.kvn("ln", lineOf(l));
      std::string f = fileOf(l);
      if (f != curFile) W.kv("f", f);
    }
  }

  void tryFold(const Expr *e) {
    if (e->isValueDependent() || e->isTypeDependent()) return;
    QualType t = e->getType();
    if (t.isNull()) return;
    if (!(t->isIntegralOrEnumerationType() || t->isPointerType() || t->isNullPtrType())) return;
    if (!t->isIntegralOrEnumerationType()) return;
    if (e->isGLValue() && !isa<DeclRefExpr>(e) && !isa<MemberExpr>(e)) return;
    Expr::EvalResult r;
    if (e->EvaluateAsInt(r, Ctx, Expr::SE_NoSideEffects)) {
      llvm::SmallString<40> s;
      r.Val.getInt().toString(s, 10);
      W.key("v");
      W.raw(s);
    }
  }

  void exprCommon(const Expr *e) {
    W.kv("ty", typeStr(e->getType()));
    tryFold(e);
  }

  void dumpChildrenGeneric(const Stmt *s) {
    W.key("ch");
    W.beginArr();
    for (const Stmt *c : s->children()) dumpStmt(c);
    W.endArr();
  }

  void dumpDeclInStmt(const Decl *d) {
    W.beginObj();
    if (auto *vd = dyn_cast<VarDecl>(d)) {
      W.kv("name", vd->getNameAsString());
      W.kv("id", declId(vd));
      W.kv("ty", typeStr(vd->getType()));
      W.kvb("static", vd->isStaticLocal());
      W.kvb("tls", vd->getTLSKind() != VarDecl::TLS_None);
      W.kvb("const", vd->getType().isConstQualified() || vd->isConstexpr());
      if (vd->hasInit()) {
        W.key("init");
        dumpStmt(vd->getInit());
        W.kv("initstyle", vd->getInitStyle() == VarDecl::CInit ? "c" : vd->getInitStyle() == VarDecl::CallInit ? "call" : "list");
      }
      if (auto *at = Ctx.getAsConstantArrayType(vd->getType())) {
        W.kvn("arrlen", at->getSize().getZExtValue());
      }
      if (!vd->getType()->isDependentType() && !vd->getType()->isIncompleteType() && !vd->getType()->isReferenceType())
        W.kvn("size", Ctx.getTypeSizeInChars(vd->getType()).getQuantity());
    } else if (auto *nd = dyn_cast<NamedDecl>(d)) {
      W.kv("name", nd->getNameAsString());
      W.kv("declkind", d->getDeclKindName());
    } else {
      W.kv("declkind", d->getDeclKindName());
    }
    W.endObj();
  }

  void dumpCallee(const CallExpr *ce) {
    const FunctionDecl *fd = ce->getDirectCallee();
    if (fd) {
      W.kv("fn", qname(fd));
      W.kv("name", fd->getNameAsString());
      if (auto *md = dyn_cast<CXXMethodDecl>(fd)) {
        W.kvb("virt", md->isVirtual());
        W.kv("cls", qname(md->getParent()));
        W.kvb("smeth", md->isStatic());
      }
      if (fd->getBuiltinID()) W.kvb("builtin", true);
      if (!inRoot(fd->getLocation())) W.kvb("ext", true);
    } else {
      W.key("callee");
      dumpStmt(ce->getCallee());
    }
  }

  void dumpStmt(const Stmt *s) {
    if (!s) { W.null(); return; }
    // transparent wrappers
    if (auto *p = dyn_cast<ParenExpr>(s)) return dumpStmt(p->getSubExpr());
    if (auto *p = dyn_cast<ExprWithCleanups>(s)) return dumpStmt(p->getSubExpr());
    if (auto *p = dyn_cast<MaterializeTemporaryExpr>(s)) return dumpStmt(p->getSubExpr());
    if (auto *p = dyn_cast<CXXBindTemporaryExpr>(s)) return dumpStmt(p->getSubExpr());
    if (auto *p = dyn_cast<ConstantExpr>(s)) return dumpStmt(p->getSubExpr());
    if (auto *p = dyn_cast<SubstNonTypeTemplateParmExpr>(s)) return dumpStmt(p->getReplacement());
    if (auto *p = dyn_cast<CXXDefaultArgExpr>(s)) return dumpStmt(p->getExpr());
    if (auto *p = dyn_cast<CXXDefaultInitExpr>(s)) return dumpStmt(p->getExpr());

    W.beginObj();
    if (auto *e = dyn_cast<Expr>(s)) {
      dumpExpr(e);
    } else if (auto *c = dyn_cast<CompoundStmt>(s)) {
      W.kv("k", "Compound");
      locKeys(s);
      W.key("s");
      W.beginArr();
      for (const Stmt *x : c->body()) dumpStmt(x);
      W.endArr();
    } else if (auto *i = dyn_cast<IfStmt>(s)) {
      W.kv("k", "If");
      locKeys(s);
      if (i->getInit()) { W.key("init"); dumpStmt(i->getInit()); }
      W.key("c"); dumpStmt(i->getCond());
      W.key("t"); dumpStmt(i->getThen());
      W.key("e"); dumpStmt(i->getElse());
    } else if (auto *f = dyn_cast<ForStmt>(s)) {
      W.kv("k", "For");
      locKeys(s);
      W.key("init"); dumpStmt(f->getInit());
      W.key("c"); dumpStmt(f->getCond());
      W.key("inc"); dumpStmt(f->getInc());
      W.key("b"); dumpStmt(f->getBody());
    } else if (auto *f = dyn_cast<CXXForRangeStmt>(s)) {
      W.kv("k", "ForRange");
      locKeys(s);
      W.key("range"); dumpStmt(f->getRangeInit());
      W.key("var"); dumpDeclInStmt(f->getLoopVariable());
      W.key("b"); dumpStmt(f->getBody());
    } else if (auto *w = dyn_cast<WhileStmt>(s)) {
      W.kv("k", "While");
      locKeys(s);
      W.key("c"); dumpStmt(w->getCond());
      W.key("b"); dumpStmt(w->getBody());
    } else if (auto *d = dyn_cast<DoStmt>(s)) {
      W.kv("k", "Do");
      locKeys(s);
      W.key("b"); dumpStmt(d->getBody());
      W.key("c"); dumpStmt(d->getCond());
    } else if (auto *sw = dyn_cast<SwitchStmt>(s)) {
      W.kv("k", "Switch");
      locKeys(s);
      W.key("c"); dumpStmt(sw->getCond());
      W.key("b"); dumpStmt(sw->getBody());
    } else if (auto *cs = dyn_cast<CaseStmt>(s)) {
      W.kv("k", "Case");
      locKeys(s);
      W.key("lhs"); dumpStmt(cs->getLHS());
      if (cs->getRHS()) { W.key("rhs"); dumpStmt(cs->getRHS()); }
      W.key("sub"); dumpStmt(cs->getSubStmt());
    } else if (auto *ds = dyn_cast<DefaultStmt>(s)) {
      W.kv("k", "Default");
      locKeys(s);
      W.key("sub"); dumpStmt(ds->getSubStmt());
    } else if (isa<BreakStmt>(s)) {
      W.kv("k", "Break"); locKeys(s);
    } else if (isa<ContinueStmt>(s)) {
      W.kv("k", "Continue"); locKeys(s);
    } else if (auto *r = dyn_cast<ReturnStmt>(s)) {
      W.kv("k", "Return"); locKeys(s);
      W.key("e"); dumpStmt(r->getRetValue());
    } else if (auto *d = dyn_cast<DeclStmt>(s)) {
      W.kv("k", "Decl"); locKeys(s);
      W.key("d");
      W.beginArr();
      for (const Decl *x : d->decls()) dumpDeclInStmt(x);
      W.endArr();
    } else if (auto *t = dyn_cast<CXXTryStmt>(s)) {
      W.kv("k", "Try"); locKeys(s);
      W.key("b"); dumpStmt(t->getTryBlock());
      W.key("h");
      W.beginArr();
      for (unsigned i = 0; i < t->getNumHandlers(); ++i) {
        const CXXCatchStmt *h = t->getHandler(i);
        W.beginObj();
        W.kv("ty", h->getCaughtType().isNull() ? "..." : typeStr(h->getCaughtType()));
        if (!h->getCaughtType().isNull()) {
          QualType ct = h->getCaughtType().getNonReferenceType();
          if (auto *rd = ct->getAsCXXRecordDecl()) W.kv("tyq", qname(rd));
        }
        W.kvn("ln", lineOf(h->getBeginLoc()));
        W.key("b"); dumpStmt(h->getHandlerBlock());
        W.endObj();
      }
      W.endArr();
    } else if (isa<NullStmt>(s)) {
      W.kv("k", "Null"); locKeys(s);
    } else if (auto *gs = dyn_cast<GotoStmt>(s)) {
      W.kv("k", "Goto"); locKeys(s);
      W.kv("label", gs->getLabel()->getNameAsString());
    } else if (auto *ls = dyn_cast<LabelStmt>(s)) {
      W.kv("k", "Label"); locKeys(s);
      W.kv("name", ls->getDecl()->getNameAsString());
      W.key("sub"); dumpStmt(ls->getSubStmt());
    } else if (isa<IndirectGotoStmt>(s)) {
      W.kv("k", "IndirectGoto"); locKeys(s);
      dumpChildrenGeneric(s);
    } else if (auto *a = dyn_cast<GCCAsmStmt>(s)) {
      W.kv("k", "Asm"); locKeys(s);
      W.kv("text", a->getAsmString()->getString());
    } else {
      W.kv("k", "OtherStmt");
      W.kv("cls", s->getStmtClassName());
      locKeys(s);
      dumpChildrenGeneric(s);
    }
    W.endObj();
  }

  void dumpRef(const ValueDecl *d) {
    W.kv("n", d->getNameAsString());
    W.kv("dk", d->getDeclKindName());
    if (isa<ParmVarDecl>(d) || (isa<VarDecl>(d) && cast<VarDecl>(d)->isLocalVarDecl())) {
      W.kv("id", declId(d));
      if (auto *vd = dyn_cast<VarDecl>(d)) if (vd->isStaticLocal()) W.kvb("static", true);
    } else {
      W.kv("q", qname(d));
    }
    if (auto *ec = dyn_cast<EnumConstantDecl>(d)) {
      llvm::SmallString<40> s;
      ec->getInitVal().toString(s, 10);
      W.key("ev"); W.raw(s);
    }
  }

  void dumpExpr(const Expr *e) {
    if (auto *il = dyn_cast<IntegerLiteral>(e)) {
      W.kv("k", "Int"); locKeys(e); exprCommon(e);
      (void)il;
    } else if (auto *fl = dyn_cast<FloatingLiteral>(e)) {
      W.kv("k", "Float"); locKeys(e);
      W.kv("ty", typeStr(e->getType()));
      llvm::SmallString<40> s;
      fl->getValue().toString(s);
      W.kv("fv", s);
    } else if (auto *sl = dyn_cast<StringLiteral>(e)) {
      W.kv("k", "Str"); locKeys(e);
      if (sl->getCharByteWidth() == 1) W.kv("s", sl->getString());
      W.kvn("len", sl->getLength());
    } else if (auto *bl = dyn_cast<CXXBoolLiteralExpr>(e)) {
      W.kv("k", "Bool"); locKeys(e);
      W.kv("ty", "bool");
      W.kvn("v", bl->getValue() ? 1 : 0);
    } else if (isa<CXXNullPtrLiteralExpr>(e) || isa<GNUNullExpr>(e)) {
      W.kv("k", "Null"); locKeys(e);
      W.kv("ty", typeStr(e->getType()));
    } else if (auto *cl = dyn_cast<CharacterLiteral>(e)) {
      W.kv("k", "Int"); locKeys(e);
      W.kv("ty", typeStr(e->getType()));
      W.kvn("v", cl->getValue());
    } else if (auto *dr = dyn_cast<DeclRefExpr>(e)) {
      W.kv("k", "Ref"); locKeys(e); exprCommon(e);
      dumpRef(dr->getDecl());
    } else if (auto *me = dyn_cast<MemberExpr>(e)) {
      W.kv("k", "Mem"); locKeys(e); exprCommon(e);
      W.kv("m", me->getMemberDecl()->getNameAsString());
      W.kvb("arrow", me->isArrow());
      if (auto *fd = dyn_cast<FieldDecl>(me->getMemberDecl())) W.kv("cls", qname(fd->getParent()));
      else W.kv("q", qname(me->getMemberDecl()));
      W.kv("dk", me->getMemberDecl()->getDeclKindName());
      W.key("b"); dumpStmt(me->getBase());
    } else if (auto *ce = dyn_cast<CallExpr>(e)) {
      W.kv("k", "Call"); locKeys(e); exprCommon(e);
      dumpCallee(ce);
      unsigned firstArg = 0;
      if (auto *mc = dyn_cast<CXXMemberCallExpr>(ce)) {
        W.key("this"); dumpStmt(mc->getImplicitObjectArgument());
      } else if (auto *oc = dyn_cast<CXXOperatorCallExpr>(ce)) {
        W.kv("opcall", getOperatorSpelling(oc->getOperator()));
        if (auto *md = dyn_cast_or_null<CXXMethodDecl>(oc->getDirectCallee())) {
          if (!md->isStatic() && oc->getNumArgs() > 0) {
            W.key("this"); dumpStmt(oc->getArg(0));
            firstArg = 1;
          }
        }
      }
      W.key("a");
      W.beginArr();
      for (unsigned i = firstArg; i < ce->getNumArgs(); ++i) dumpStmt(ce->getArg(i));
      W.endArr();
    } else if (auto *ca = dyn_cast<CompoundAssignOperator>(e)) {
      W.kv("k", "CAssign"); locKeys(e); exprCommon(e);
      W.kv("op", ca->getOpcodeStr());
      W.kv("cty", typeStr(ca->getComputationResultType()));
      W.key("l"); dumpStmt(ca->getLHS());
      W.key("r"); dumpStmt(ca->getRHS());
    } else if (auto *bo = dyn_cast<BinaryOperator>(e)) {
      W.kv("k", bo->isAssignmentOp() ? "Assign" : "Bin"); locKeys(e); exprCommon(e);
      W.kv("op", bo->getOpcodeStr());
      W.key("l"); dumpStmt(bo->getLHS());
      W.key("r"); dumpStmt(bo->getRHS());
    } else if (auto *uo = dyn_cast<UnaryOperator>(e)) {
      W.kv("k", "Un"); locKeys(e); exprCommon(e);
      W.kv("op", UnaryOperator::getOpcodeStr(uo->getOpcode()));
      W.kvb("post", uo->isPostfix());
      W.key("e"); dumpStmt(uo->getSubExpr());
    } else if (auto *co = dyn_cast<ConditionalOperator>(e)) {
      W.kv("k", "Cond"); locKeys(e); exprCommon(e);
      W.key("c"); dumpStmt(co->getCond());
      W.key("t"); dumpStmt(co->getTrueExpr());
      W.key("f"); dumpStmt(co->getFalseExpr());
    } else if (auto *ic = dyn_cast<CastExpr>(e)) {
      W.kv("k", "Cast"); locKeys(e); exprCommon(e);
      W.kv("ck", ic->getCastKindName());
      W.kvb("impl", isa<ImplicitCastExpr>(e));
      W.kv("from", typeStr(ic->getSubExpr()->getType()));
      W.key("e"); dumpStmt(ic->getSubExpr());
    } else if (auto *as = dyn_cast<ArraySubscriptExpr>(e)) {
      W.kv("k", "Idx"); locKeys(e); exprCommon(e);
      W.key("b"); dumpStmt(as->getBase());
      W.key("i"); dumpStmt(as->getIdx());
    } else if (auto *il = dyn_cast<InitListExpr>(e)) {
      W.kv("k", "InitList"); locKeys(e);
      W.kv("ty", typeStr(e->getType()));
      const InitListExpr *sem = il->isSemanticForm() ? il : (il->getSemanticForm() ? il->getSemanticForm() : il);
      if (sem->hasArrayFiller()) { W.key("filler"); dumpStmt(sem->getArrayFiller()); }
      if (auto *at = Ctx.getAsConstantArrayType(e->getType())) W.kvn("arrlen", at->getSize().getZExtValue());
      W.key("e");
      W.beginArr();
      for (const Expr *x : sem->inits()) dumpStmt(x);
      W.endArr();
    } else if (auto *cc = dyn_cast<CXXConstructExpr>(e)) {
      W.kv("k", "Construct"); locKeys(e);
      W.kv("ty", typeStr(e->getType()));
      W.kv("ctor", qname(cc->getConstructor()));
      W.kvb("zeroinit", cc->requiresZeroInitialization());
      W.kvb("trivial", cc->getConstructor()->isTrivial());
      W.kvb("implicit_ctor", cc->getConstructor()->isImplicit());
      W.key("a");
      W.beginArr();
      for (const Expr *x : cc->arguments()) dumpStmt(x);
      W.endArr();
    } else if (auto *ne = dyn_cast<CXXNewExpr>(e)) {
      W.kv("k", "New"); locKeys(e);
      W.kv("ty", typeStr(e->getType()));
      W.kv("aty", typeStr(ne->getAllocatedType()));
      if (auto *rd = ne->getAllocatedType()->getAsCXXRecordDecl()) W.kv("atyq", qname(rd));
      W.kvb("array", ne->isArray());
      if (ne->getOperatorNew()) {
        W.kv("opnew", qname(ne->getOperatorNew()));
        W.kvb("opnew_member", isa<CXXMethodDecl>(ne->getOperatorNew()));
      }
      W.kvb("hasinit", ne->hasInitializer());
      W.kv("initstyle", ne->getInitializationStyle() == CXXNewExpr::NoInit ? "none" : ne->getInitializationStyle() == CXXNewExpr::CallInit ? "call" : "list");
      if (ne->getInitializer()) { W.key("init"); dumpStmt(ne->getInitializer()); }
      if (ne->isArray() && ne->getArraySize()) { W.key("count"); dumpStmt(*ne->getArraySize()); }
    } else if (auto *de = dyn_cast<CXXDeleteExpr>(e)) {
      W.kv("k", "Delete"); locKeys(e);
      W.kvb("array", de->isArrayForm());
      W.kv("dty", typeStr(de->getDestroyedType()));
      if (de->getOperatorDelete()) W.kv("opdelete", qname(de->getOperatorDelete()));
      W.key("e"); dumpStmt(de->getArgument());
    } else if (auto *te = dyn_cast<CXXThrowExpr>(e)) {
      W.kv("k", "Throw"); locKeys(e);
      if (te->getSubExpr()) {
        QualType tt = te->getSubExpr()->getType();
        W.kv("tty", typeStr(tt));
        if (auto *rd = tt->getAsCXXRecordDecl()) {
          W.kv("ttyq", qname(rd));
          W.key("bases");
          W.beginArr();
          std::set<const CXXRecordDecl *> seen;
          std::vector<const CXXRecordDecl *> work{rd};
          while (!work.empty()) {
            const CXXRecordDecl *c = work.back();
            work.pop_back();
            if (!c->hasDefinition()) continue;
            c = c->getDefinition();
            if (!seen.insert(c).second) continue;
            W.str(qname(c));
            for (auto &b : c->bases())
              if (auto *bd = b.getType()->getAsCXXRecordDecl()) work.push_back(bd);
          }
          W.endArr();
        }
        W.key("e"); dumpStmt(te->getSubExpr());
      }
    } else if (isa<CXXThisExpr>(e)) {
      W.kv("k", "This"); locKeys(e);
      W.kv("ty", typeStr(e->getType()));
    } else if (auto *ue = dyn_cast<UnaryExprOrTypeTraitExpr>(e)) {
      W.kv("k", "SizeOf"); locKeys(e); exprCommon(e);
      W.kv("trait", ue->getKind() == UETT_SizeOf ? "sizeof" : ue->getKind() == UETT_AlignOf ? "alignof" : "other");
      if (ue->isArgumentType()) W.kv("argty", typeStr(ue->getArgumentType()));
      else { W.key("arg"); dumpStmt(ue->getArgumentExpr()); }
    } else if (auto *sv = dyn_cast<CXXScalarValueInitExpr>(e)) {
      W.kv("k", "ValueInit"); locKeys(e); exprCommon(e);
      (void)sv;
    } else if (isa<ImplicitValueInitExpr>(e)) {
      W.kv("k", "ValueInit"); locKeys(e); exprCommon(e);
    } else if (auto *tc = dyn_cast<CXXTemporaryObjectExpr>(e)) {
      (void)tc;
      W.kv("k", "Construct"); locKeys(e);
    } else if (auto *le = dyn_cast<LambdaExpr>(e)) {
      W.kv("k", "Lambda"); locKeys(e);
      W.key("b"); dumpStmt(le->getBody());
    } else {
      W.kv("k", "OtherExpr");
      W.kv("cls", e->getStmtClassName());
      locKeys(e);
      exprCommon(e);
      dumpChildrenGeneric(e);
    }
  }

  void dumpFunction(const FunctionDecl *fd) {
    std::string saved = curFile;
    curFile = fileOf(fd->getLocation());
    W.beginObj();
    W.kv("q", qname(fd));
    W.kv("name", fd->getNameAsString());
    W.kv("file", curFile);
    W.kvn("line", lineOf(fd->getLocation()));
    W.kv("ret", typeStr(fd->getReturnType()));
    W.kvb("inst", fd->isTemplateInstantiation());
    W.kvb("externC", fd->isExternC());
    W.kvb("static_linkage", fd->getFormalLinkage() == InternalLinkage);
    W.kv("sig", typeStr(fd->getType()));
    if (auto *md = dyn_cast<CXXMethodDecl>(fd)) {
      W.kv("cls", qname(md->getParent()));
      W.kvb("virtual", md->isVirtual());
      W.kvb("static", md->isStatic());
      W.kv("kind", isa<CXXConstructorDecl>(md) ? "ctor" : isa<CXXDestructorDecl>(md) ? "dtor" : "method");
      if (auto *cd = dyn_cast<CXXConstructorDecl>(md)) {
        W.key("inits");
        W.beginArr();
        for (const CXXCtorInitializer *ci : cd->inits()) {
          W.beginObj();
          if (ci->isAnyMemberInitializer()) W.kv("member", ci->getAnyMember()->getNameAsString());
          else if (ci->isBaseInitializer()) W.kv("base", typeStr(QualType(ci->getBaseClass(), 0)));
          W.kvb("written", ci->isWritten());
          W.key("e"); dumpStmt(ci->getInit());
          W.endObj();
        }
        W.endArr();
      }
    }
    if (auto *ta = fd->getTemplateSpecializationArgs()) {
      W.key("targs");
      W.beginArr();
      for (const TemplateArgument &a : ta->asArray()) {
        std::string s;
        llvm::raw_string_ostream os(s);
        a.print(PP, os, true);
        os.flush();
        W.str(s);
      }
      W.endArr();
    }
    W.key("params");
    W.beginArr();
    for (const ParmVarDecl *p : fd->parameters()) {
      W.beginObj();
      W.kv("name", p->getNameAsString());
      W.kv("id", declId(p));
      W.kv("ty", typeStr(p->getType()));
      W.endObj();
    }
    W.endArr();
    W.key("body");
    dumpStmt(fd->getBody());
    W.endObj();
    curFile = saved;
  }

  void dumpGlobal(const VarDecl *vd) {
    std::string saved = curFile;
    curFile = fileOf(vd->getLocation());
    W.beginObj();
    W.kv("q", qname(vd));
    W.kv("name", vd->getNameAsString());
    W.kv("file", curFile);
    W.kvn("line", lineOf(vd->getLocation()));
    W.kv("ty", typeStr(vd->getType()));
    W.kvb("const", vd->getType().isConstQualified() || vd->isConstexpr());
    W.kvb("constexpr", vd->isConstexpr());
    W.kvb("tls", vd->getTLSKind() != VarDecl::TLS_None);
    W.kvb("static_member", vd->isStaticDataMember());
    W.kvb("internal", vd->getFormalLinkage() == InternalLinkage);
    W.kvb("volatile", vd->getType().isVolatileQualified());
    if (auto *at = Ctx.getAsConstantArrayType(vd->getType())) W.kvn("arrlen", at->getSize().getZExtValue());
    const VarDecl *def = nullptr;
    const Expr *init = vd->getAnyInitializer(def);
    if (init && !init->isValueDependent()) {
      if (vd->getType()->isIntegralOrEnumerationType()) {
        Expr::EvalResult r;
        if (init->EvaluateAsInt(r, Ctx, Expr::SE_NoSideEffects)) {
          llvm::SmallString<40> s;
          r.Val.getInt().toString(s, 10);
          W.key("v"); W.raw(s);
        }
      }
      W.key("init");
      dumpStmt(init);
    }
    W.endObj();
    curFile = saved;
  }

  void dumpRecord(const CXXRecordDecl *rd) {
    std::string saved = curFile;
    curFile = fileOf(rd->getLocation());
    W.beginObj();
    W.kv("q", qname(rd));
    W.kv("file", curFile);
    W.kvn("line", lineOf(rd->getLocation()));
    W.kvb("union", rd->isUnion());
    W.kvb("polymorphic", rd->isPolymorphic());
    W.kvb("abstract", rd->isAbstract());
    if (!rd->isDependentType() && rd->isCompleteDefinition() && !rd->isInvalidDecl()) {
      const ASTRecordLayout &L = Ctx.getASTRecordLayout(rd);
      W.kvn("size", L.getSize().getQuantity());
      W.kvn("align", L.getAlignment().getQuantity());
    }
    W.key("bases");
    W.beginArr();
    for (auto &b : rd->bases()) {
      if (auto *bd = b.getType()->getAsCXXRecordDecl()) W.str(qname(bd));
      else W.str(typeStr(b.getType()));
    }
    W.endArr();
    W.key("fields");
    W.beginArr();
    bool layoutOk = !rd->isDependentType() && rd->isCompleteDefinition() && !rd->isInvalidDecl();
    for (const FieldDecl *f : rd->fields()) {
      W.beginObj();
      W.kv("name", f->getNameAsString());
      W.kv("ty", typeStr(f->getType()));
      if (layoutOk) W.kvn("off", Ctx.getFieldOffset(f) / 8);
      if (auto *at = Ctx.getAsConstantArrayType(f->getType())) W.kvn("arrlen", at->getSize().getZExtValue());
      if (f->isAnonymousStructOrUnion()) {
        W.kvb("anon", true);
        if (auto *ad = f->getType()->getAsCXXRecordDecl()) {
          W.key("anon_fields");
          W.beginArr();
          for (const FieldDecl *af : ad->fields()) {
            W.beginObj();
            W.kv("name", af->getNameAsString());
            W.kv("ty", typeStr(af->getType()));
            if (layoutOk && !ad->isDependentType() && ad->isCompleteDefinition()) W.kvn("off", (Ctx.getFieldOffset(f) + Ctx.getFieldOffset(af)) / 8);
            if (af->hasInClassInitializer() && af->getInClassInitializer()) { W.key("init"); dumpStmt(af->getInClassInitializer()); }
            W.endObj();
          }
          W.endArr();
        }
      }
      if (f->hasInClassInitializer() && f->getInClassInitializer()) {
        W.key("init");
        dumpStmt(f->getInClassInitializer());
      }
      W.endObj();
    }
    W.endArr();
    W.key("methods");
    W.beginArr();
    for (const CXXMethodDecl *m : rd->methods()) {
      if (m->isImplicit()) continue;
      W.beginObj();
      W.kv("name", m->getNameAsString());
      W.kv("q", qname(m));
      W.kvb("virtual", m->isVirtual());
      W.kvb("pure", m->isPure());
      W.kvb("static", m->isStatic());
      W.kvb("has_body", m->hasBody());
      W.key("overrides");
      W.beginArr();
      for (const CXXMethodDecl *o : m->overridden_methods()) W.str(qname(o));
      W.endArr();
      W.endObj();
    }
    W.endArr();
    W.endObj();
    curFile = saved;
  }

  void dumpEnum(const EnumDecl *ed) {
    W.beginObj();
    W.kv("q", qname(ed));
    W.kv("file", fileOf(ed->getLocation()));
    W.kvn("line", lineOf(ed->getLocation()));
    W.key("consts");
    W.beginArr();
    for (const EnumConstantDecl *c : ed->enumerators()) {
      W.beginObj();
      W.kv("n", c->getNameAsString());
      llvm::SmallString<40> s;
      c->getInitVal().toString(s, 10);
      W.key("v"); W.raw(s);
      W.endObj();
    }
    W.endArr();
    W.endObj();
  }

  ASTContext &Ctx;
  SourceManager &SM;
  JW &W;
  std::string Root;
  PrintingPolicy PP;
  std::string curFile;
  std::map<std::string, std::string> pathCache;
};

class Collector : public RecursiveASTVisitor<Collector> {
public:
  explicit Collector(Dumper &d) : D(d) {}
  bool shouldVisitTemplateInstantiations() const { return true; }
  bool shouldVisitImplicitCode() const { return false; }

  bool VisitFunctionDecl(FunctionDecl *fd) {
    if (!fd->doesThisDeclarationHaveABody()) return true;
    if (fd->isDependentContext()) return true;
    if (fd->isImplicit()) return true;
    if (!D.inRoot(fd->getLocation())) return true;
    if (seenF.insert(fd->getCanonicalDecl()).second) funcs.push_back(fd);
    return true;
  }
  bool VisitVarDecl(VarDecl *vd) {
    if (isa<ParmVarDecl>(vd)) return true;
    if (!vd->hasGlobalStorage() || vd->isStaticLocal()) return true;
    if (vd->getDeclContext()->isDependentContext()) return true;
    if (!D.inRoot(vd->getLocation())) return true;
    if (seenV.insert(vd->getCanonicalDecl()).second) vars.push_back(vd);
    else if (vd->hasInit()) {
      // prefer the declaration that carries the initialiser
      for (auto &v : vars) if (v->getCanonicalDecl() == vd->getCanonicalDecl()) v = vd;
    }
    return true;
  }
  bool VisitCXXRecordDecl(CXXRecordDecl *rd) {
    if (!rd->isThisDeclarationADefinition()) return true;
    if (rd->isDependentContext()) return true;
    if (rd->isImplicit() || rd->isLambda()) return true;
    if (!D.inRoot(rd->getLocation())) return true;
    if (seenR.insert(rd->getCanonicalDecl()).second) recs.push_back(rd);
    return true;
  }
  bool VisitEnumDecl(EnumDecl *ed) {
    if (!ed->isThisDeclarationADefinition()) return true;
    if (!D.inRoot(ed->getLocation())) return true;
    enums.push_back(ed);
    return true;
  }

  Dumper &D;
  std::vector<const FunctionDecl *> funcs;
  std::vector<const VarDecl *> vars;
  std::vector<const CXXRecordDecl *> recs;
  std::vector<const EnumDecl *> enums;
  std::set<const Decl *> seenF, seenV, seenR;
};

class MacroCB : public PPCallbacks {
public:
  MacroCB(Preprocessor &pp, std::vector<MacroRec> &out, std::string root) : PP(pp), Out(out), Root(std::move(root)) {}
  void MacroDefined(const Token &name, const MacroDirective *md) override {
    const MacroInfo *mi = md->getMacroInfo();
    SourceManager &SM = PP.getSourceManager();
    SourceLocation loc = mi->getDefinitionLoc();
    if (loc.isInvalid() || !SM.isWrittenInMainFile(loc)) {
      // accept headers under root as well
    }
    llvm::StringRef f = SM.getFilename(SM.getExpansionLoc(loc));
    if (f.empty()) return;
    llvm::SmallString<256> rp;
    std::string path = f.str();
    if (!llvm::sys::fs::real_path(f, rp)) path = rp.str().str();
    if (!llvm::StringRef(path).startswith(Root)) return;
    MacroRec r;
    r.name = name.getIdentifierInfo()->getName().str();
    r.fnlike = mi->isFunctionLike();
    r.file = path;
    r.line = SM.getSpellingLineNumber(SM.getExpansionLoc(loc));
    std::string body;
    for (const Token &t : mi->tokens()) {
      if (!body.empty() && t.hasLeadingSpace()) body += ' ';
      body += PP.getSpelling(t);
    }
    r.body = body;
    Out.push_back(r);
  }
  Preprocessor &PP;
  std::vector<MacroRec> &Out;
  std::string Root;
};

class Consumer : public ASTConsumer {
public:
  Consumer(CompilerInstance &ci, std::string file, std::vector<MacroRec> &macros) : CI(ci), File(std::move(file)), Macros(macros) {}
  void HandleTranslationUnit(ASTContext &ctx) override {
    std::error_code ec;
    std::unique_ptr<llvm::raw_fd_ostream> fos;
    llvm::raw_ostream *os = &llvm::outs();
    if (OptOut != "-") {
      fos.reset(new llvm::raw_fd_ostream(OptOut, ec));
      if (ec) { llvm::errs() << "rxast: cannot open " << OptOut << "\n"; exit(3); }
      os = fos.get();
    }
    JW w(*os);
    Dumper d(ctx, w, OptRoot);
    Collector c(d);
    c.TraverseDecl(ctx.getTranslationUnitDecl());
    w.beginObj();
    w.kv("unit", File);
    w.kvn("errors", CI.getDiagnostics().getClient()->getNumErrors());
    w.kv("triple", ctx.getTargetInfo().getTriple().str());
    w.key("functions");
    w.beginArr();
    for (auto *f : c.funcs) d.dumpFunction(f);
    w.endArr();
    w.key("globals");
    w.beginArr();
    for (auto *v : c.vars) d.dumpGlobal(v);
    w.endArr();
    w.key("records");
    w.beginArr();
    for (auto *r : c.recs) d.dumpRecord(r);
    w.endArr();
    w.key("enums");
    w.beginArr();
    for (auto *e : c.enums) d.dumpEnum(e);
    w.endArr();
    w.key("macros");
    w.beginArr();
    for (auto &m : Macros) {
      w.beginObj();
      w.kv("name", m.name);
      w.kv("body", m.body);
      w.kv("file", m.file);
      w.kvn("line", m.line);
      w.kvb("fnlike", m.fnlike);
      w.endObj();
    }
    w.endArr();
    w.endObj();
    *os << "\n";
  }
  CompilerInstance &CI;
  std::string File;
  std::vector<MacroRec> &Macros;
};

class Action : public ASTFrontendAction {
public:
  std::unique_ptr<ASTConsumer> CreateASTConsumer(CompilerInstance &ci, llvm::StringRef file) override {
    ci.getPreprocessor().addPPCallbacks(std::make_unique<MacroCB>(ci.getPreprocessor(), Macros, OptRoot));
    return std::make_unique<Consumer>(ci, file.str(), Macros);
  }
  std::vector<MacroRec> Macros;
};

} // namespace

int main(int argc, const char **argv) {
  auto ep = tooling::CommonOptionsParser::create(argc, argv, Cat);
  if (!ep) {
    llvm::errs() << llvm::toString(ep.takeError()) << "\n";
    return 2;
  }
  tooling::ClangTool tool(ep->getCompilations(), ep->getSourcePathList());
  return tool.run(tooling::newFrontendActionFactory<Action>().get());
}
