#!/usr/bin/env python3
"""False-alarm experiment: applies a behaviour-preserving patch (produced by a sub-agent from the repository alone) to a scratch copy of /repo and runs
every registered check on it.  Expected: exit 0 everywhere.  exit 1 = false alarm (must be fixed in the checker), exit 2 = the analysis gave up.
usage: benigncheck.py <dir with patch.diff> [props...]"""
import json
import os
import re
import shutil
import subprocess
import sys
import tempfile

VERIF = os.path.dirname(os.path.dirname(os.path.abspath(__file__)))


def main():
    seed = os.path.abspath(sys.argv[1])
    props = sys.argv[2:]
    if not props:
        with open(os.path.join(VERIF, 'MANIFEST.json')) as fh:
            props = [c['property_id'] for c in json.load(fh)['checks']]
    d = tempfile.mkdtemp(prefix='rxben_')
    res = {}
    try:
        subprocess.check_call(['rsync', '-a', '--exclude', '.git', '--exclude', '_b', '/repo/', d + '/'])
        p = subprocess.run('patch -p1 -s < %s/patch.diff' % seed, shell=True, cwd=d, stdout=subprocess.PIPE, stderr=subprocess.STDOUT, text=True)
        if p.returncode:
            print('PATCH DOES NOT APPLY', p.stdout[-300:])
            return 3
        env = dict(os.environ, RXVERIF_CACHE=d + '.cache', RXVERIF_EVIDENCE_DIR=d + '.evidence')
        for pr in props:
            r = subprocess.run([os.path.join(VERIF, 'check'), pr, '--repo', d], stdout=subprocess.PIPE, stderr=subprocess.STDOUT, text=True, env=env)
            if r.returncode:
                lines = [ln for ln in r.stdout.split('\n') if re.search(r'\[[A-Z0-9-]+\]|ANALYSIS-BROKEN', ln)][:3]
                res[pr] = (r.returncode, [ln[:330] for ln in lines])
    finally:
        shutil.rmtree(d, ignore_errors=True)
        shutil.rmtree(d + '.cache', ignore_errors=True)
        shutil.rmtree(d + '.evidence', ignore_errors=True)
    name = os.path.basename(seed)
    if not res:
        print('%-12s silent on all %d checks' % (name, len(props)))
    for pr, (rc, lines) in sorted(res.items()):
        print('%-12s %s rc=%d %s' % (name, pr, rc, 'FALSE ALARM' if rc == 1 else 'analysis gave up'))
        for ln in lines:
            print('      ', ln)
    return 1 if res else 0


if __name__ == '__main__':
    sys.exit(main())
