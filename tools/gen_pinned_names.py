#!/usr/bin/env python3
"""Writes support/pinned_names.json: for every function definition of every analysed configuration the names of its parameters and locals in
declaration order, as they are on the tree this is run on (the pinned tree).  lib/astq.py alpha-renames locals to these names when facts are
loaded (only for functions whose parameter / local count is unchanged), which makes every rule independent of what locals are called."""
import json
import os
import sys

V = os.path.dirname(os.path.dirname(os.path.abspath(__file__)))
sys.path.insert(0, os.path.join(V, 'lib'))
import astq  # noqa: E402
from core import Ctx  # noqa: E402


def main():
    astq._PINNED[0] = {}      # do not rename while generating
    ctx = Ctx(sys.argv[1] if len(sys.argv) > 1 else '/repo')
    out = {}
    for cfg in ('K0', 'K1', 'K2', 'K3', 'K4'):
        for rel in ctx.ast_units(cfg):
            try:
                u = ctx.ast(rel, cfg)
            except Exception:
                continue
            for f in u['functions']:
                if f.get('body') is None or '/src/' not in f.get('file', ''):
                    continue
                ent = [[k, d.get('name')] for k, d in astq.local_decl_list(f)]
                key = cfg + '|' + astq.fkey(f)
                if key in out and out[key] != ent:
                    out[key] = None       # two different definitions under one key: leave the names alone
                else:
                    out.setdefault(key, ent)
    out = {k: v for k, v in out.items() if v is not None}
    # loop forms, for the loop canonicalisation (for <-> while rewrites must not change a verdict)
    astq._PINNED[0] = {}
    loops = {}
    for cfg in ('K0', 'K1', 'K2', 'K3', 'K4'):
        for rel in ctx.ast_units(cfg):
            try:
                u = ctx.ast(rel, cfg)
            except Exception:
                continue
            for f in u['functions']:
                if f.get('body') is None or '/src/' not in f.get('file', ''):
                    continue
                sig = [x['k'] for x in astq.walk(f['body']) if x['k'] in ('For', 'While', 'Do')]
                if sig:
                    loops.setdefault(cfg + '|' + astq.fkey(f), sig)
    with open(os.path.join(V, 'support', 'pinned_loops.json'), 'w') as fh:
        json.dump(loops, fh, indent=0, sort_keys=True)
    with open(os.path.join(V, 'support', 'pinned_names.json'), 'w') as fh:
        json.dump(out, fh, indent=0, sort_keys=True)
    print('%d functions' % len(out))


if __name__ == '__main__':
    main()
